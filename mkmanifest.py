#!/usr/bin/env python3
"""Regenerates MANIFEST.json from props/*.json, manifest_meta.json and the hook commits in /repo."""
import json, os, subprocess, glob
V = os.path.dirname(os.path.abspath(__file__))
meta = json.load(open(os.path.join(V, 'manifest_meta.json')))
props = [json.loads(l) for l in open(os.path.join(V, 'properties.jsonl'))]
claimed = sorted(os.path.basename(p)[:-5] for p in glob.glob(os.path.join(V, 'props', 'C*.json')))
claimed = [c for c in claimed if os.path.exists(os.path.join(V, 'claims', c + '.quick'))]
hooks = subprocess.run(['git', '-C', '/repo', 'log', '--format=%H %s'], capture_output=True, text=True).stdout.splitlines()
hook_commits = [l.split()[0] for l in hooks if 'verif hook' in l]
checks = []
for pid in claimed:
    m = meta['checks'].get(pid, {})
    cfg = json.load(open(os.path.join(V, 'props', pid + '.json')))
    checks.append({
        'property_id': pid,
        'quick_cmd': f'./check {pid} quick',
        'thorough_cmd': f'./check {pid} thorough',
        'evidence_file': f'/verif/evidence/{pid}.json',
        'replay_cmd_template': 'cat {path}   # JSON sidecar naming the failed obligation; its replay.command field re-runs the generated Go test against /repo',
        'engine': 'govc',
        'level_claimed': {'category': 'proof', 'text': m.get('text', ''), 'design_ref': m.get('design_ref', 'DESIGN.md section 5')},
        'level_note': m.get('note', '') + ' Residual (not decided): ' + cfg.get('residual', ''),
        'technique': m.get('technique', 'contract-based deductive verification: function-modular VCs generated from go/ssa of the real code, discharged by z3/cvc5'),
    })
na = []
for p in props:
    if p['id'] not in claimed:
        na.append({'property_id': p['id'], 'reason': meta['not_applicable'].get(p['id'], 'no contract-level check has been built for this property yet (see DESIGN.md)')})
man = {
    'version': 1,
    'setup_cmd': './setup.sh',
    'hooks': {
        'guard': 'verif',
        'enable': 'go build/test -tags verif (contracts are comment-only files contracts_verif*.go; govc loads /repo with -tags=verif)',
        'baseline_off_cmd': meta['baseline_off_cmd'],
        'source_commits': hook_commits,
        'add_only': True,
    },
    'engines': [{'name': 'govc', 'path': '/verif/govc', 'serves_properties': claimed,
                 'kind_free_text': 'hand-built verification-condition generator over go/packages + go/ssa (x/tools v0.29.0) with contracts read from comment-only files in /repo; obligations discharged by z3 5.1.0 / z3 4.8.12 / cvc5 1.0; counterexample models replayed on the real code via go test -overlay'}],
    'checks': checks,
    'notes': meta.get('notes', ''),
    'not_applicable': na,
}
json.dump(man, open(os.path.join(V, 'MANIFEST.json'), 'w'), indent=1)
print('claimed', claimed, 'n/a', [x['property_id'] for x in na])

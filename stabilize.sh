#!/bin/bash
# maintenance: (re)write the claim files of the given properties and drop any claim that does not
# discharge in every one of three further quick runs (never used by registered commands).
# Works on a snapshot (the checker binary, the property files and /repo's working tree as they are when it starts),
# so that work on the engine and the contracts can go on meanwhile; the claim files of the named properties are
# copied back at the end.
V="$(cd "$(dirname "$0")" && pwd)"
export GOFLAGS=-mod=mod GOPROXY=off GOSUMDB=off GOTOOLCHAIN=local
S=/root/scratch-stab.$$
rm -rf "$S"; mkdir -p "$S/v/bin" "$S/repo"
cp "$V/bin/govc" "$S/v/bin/govc"; cp -r "$V/claims" "$V/props" "$V/known_findings.json" "$S/v/"
rsync -a --exclude .git /repo/ "$S/repo/"
G="$S/v/bin/govc"; A="--repo $S/repo --verif $S/v --out $S/out"
for p in "$@"; do
  $G check $A --prop $p --write-claims >/dev/null
  $G check $A --prop $p --tier thorough --write-claims >/dev/null
  for i in 1 2 3; do
    out=$($G check $A --prop $p 2>&1)
    echo "$out" | grep '^VIOLATION' | sed 's/.*obligation=\(.*\) reason=.*/\1/' | while read -r ob; do
      echo "unstable claim dropped: $ob"
      grep -vxF "$ob" "$S/v/claims/$p.quick" > "$S/v/claims/$p.quick.tmp"; mv "$S/v/claims/$p.quick.tmp" "$S/v/claims/$p.quick"
      grep -vxF "$ob" "$S/v/claims/$p.thorough" > "$S/v/claims/$p.thorough.tmp"; mv "$S/v/claims/$p.thorough.tmp" "$S/v/claims/$p.thorough"
    done
  done
  $G check $A --prop $p | tail -1
  cp "$S/v/claims/$p.quick" "$S/v/claims/$p.thorough" "$S/v/claims/$p.all" "$V/claims/"
done
rm -rf "$S"

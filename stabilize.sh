#!/bin/bash
# maintenance: (re)write the claim files of the given properties and drop any claim that does not
# discharge in every one of three further quick runs (never used by registered commands)
cd "$(dirname "$0")"
for p in "$@"; do
  ./bin/govc check --prop $p --write-claims >/dev/null
  ./bin/govc check --prop $p --tier thorough --write-claims >/dev/null
  for i in 1 2 3; do
    out=$(./bin/govc check --prop $p 2>&1)
    echo "$out" | grep '^VIOLATION' | sed 's/.*obligation=\(.*\) reason=.*/\1/' | while read -r ob; do
      echo "unstable claim dropped: $ob"
      grep -vxF "$ob" claims/$p.quick > claims/$p.quick.tmp; mv claims/$p.quick.tmp claims/$p.quick
      grep -vxF "$ob" claims/$p.thorough > claims/$p.thorough.tmp; mv claims/$p.thorough.tmp claims/$p.thorough
    done
  done
  ./bin/govc check --prop $p | tail -1
done

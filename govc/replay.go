package main

import (
	"encoding/json"
	"fmt"
	"go/types"
	"math/big"
	"os"
	"os/exec"
	"path/filepath"
	"sort"
	"strings"
	"time"

	"golang.org/x/tools/go/ssa"

	"govc/smt"
)

type ReplayResult struct {
	Reproduced bool     `json:"reproduced"`
	Verdict    string   `json:"verdict"`
	TestFile   string   `json:"test_file"`
	Command    string   `json:"command"`
	Output     string   `json:"output"`
	Notes      []string `json:"notes"`
}

// modelSession queries one satisfiable obligation for concrete values, pinning earlier answers.
type modelSession struct {
	ex     *Exec
	obl    *Obligation
	solver int
	pins   []*smt.Term
	cache  map[int]string
	fail   bool
}

func (ms *modelSession) ask(terms []*smt.Term) []string {
	var need []*smt.Term
	seen := map[int]bool{}
	for _, t := range terms {
		if _, ok := ms.cache[t.ID]; !ok && !seen[t.ID] && t.Kind != smt.KLit {
			need = append(need, t)
			seen[t.ID] = true
		}
	}
	if len(need) > 0 && !ms.fail {
		c := ms.ex.W.C
		o := *ms.obl
		o.Guard = c.And(append([]*smt.Term{ms.obl.Guard}, ms.pins...)...)
		script := ms.ex.buildQuery(&o, need)
		st, out, _ := runSolver(solvers[ms.solver], script, 20)
		if st != "sat" {
			ms.fail = true
			if os.Getenv("GOVC_DEBUG") != "" {
				fmt.Fprintf(os.Stderr, "model query failed: %s\n%s\n", st, out)
				os.WriteFile("/tmp/govc_model_query.smt2", []byte(script), 0o644)
			}
		} else {
			vals := parseValues(out, len(need))
			if len(vals) != len(need) {
				ms.fail = true
				if os.Getenv("GOVC_DEBUG") != "" {
					fmt.Fprintf(os.Stderr, "model values: want %d got %d\n%s\n", len(need), len(vals), out)
				}
			} else {
				for i, t := range need {
					ms.cache[t.ID] = vals[i]
					if t.Sort == smt.Int || t.Sort == smt.Bool || t.Sort == smt.Real {
						if pv := ms.litOf(t.Sort, vals[i]); pv != nil {
							ms.pins = append(ms.pins, c.Eq(t, pv))
						}
					}
				}
			}
		}
	}
	out := make([]string, len(terms))
	for i, t := range terms {
		if t.Kind == smt.KLit {
			out[i] = t.Op
		} else {
			out[i] = ms.cache[t.ID]
		}
	}
	return out
}

// preferSmall tries to pin every slice length occurring in the query to a small bound, so that the
// counterexample is a small input that can be built completely; the bound is dropped if unsatisfiable.
func (ms *modelSession) preferSmall() {
	c := ms.ex.W.C
	lens := map[int]*smt.Term{}
	seen := map[int]bool{}
	var walk func(t *smt.Term)
	walk = func(t *smt.Term) {
		if seen[t.ID] {
			return
		}
		seen[t.ID] = true
		if t.Kind == smt.KApp && t.Op == "s_len" && !t.IsOpen() {
			lens[t.ID] = t
		}
		for _, a := range t.Args {
			walk(a)
		}
	}
	walk(ms.obl.Guard)
	walk(ms.obl.Goal)
	for _, a := range ms.ex.assumes[:ms.obl.NAssume] {
		walk(a)
	}
	if len(lens) == 0 {
		return
	}
	for _, bound := range []int64{6, 16, 64} {
		var pins []*smt.Term
		for _, t := range lens {
			pins = append(pins, c.Le(t, c.IntLit(bound)))
		}
		o := *ms.obl
		o.Guard = c.And(append([]*smt.Term{ms.obl.Guard}, pins...)...)
		ms.ex.noSlice = true
		pinScript := ms.ex.buildQuery(&o, nil)
		ms.ex.noSlice = false
		st, _, _ := runSolver(solvers[ms.solver], pinScript, 10)
		if st == "sat" {
			ms.pins = append(ms.pins, pins...)
			return
		}
	}
}

func (ms *modelSession) litOf(s smt.Sort, v string) *smt.Term {
	c := ms.ex.W.C
	switch s {
	case smt.Int:
		if n, ok := parseIntVal(v); ok {
			return c.BigLit(n)
		}
	case smt.Bool:
		if v == "true" {
			return c.True()
		}
		if v == "false" {
			return c.False()
		}
	case smt.Real:
		if r, ok := parseRealVal(v); ok {
			return c.RealLit(r)
		}
	}
	return nil
}

func parseIntVal(v string) (*big.Int, bool) {
	v = strings.TrimSpace(v)
	if strings.HasPrefix(v, "#x") {
		n, ok := new(big.Int).SetString(v[2:], 16)
		return n, ok
	}
	if strings.HasPrefix(v, "#b") {
		n, ok := new(big.Int).SetString(v[2:], 2)
		return n, ok
	}
	if strings.HasPrefix(v, "(_ bv") {
		f := strings.Fields(v[5:])
		if len(f) > 0 {
			n, ok := new(big.Int).SetString(f[0], 10)
			return n, ok
		}
	}
	neg := false
	if strings.HasPrefix(v, "(-") {
		neg = true
		v = strings.TrimSpace(v[2 : len(v)-1])
	}
	n, ok := new(big.Int).SetString(v, 10)
	if !ok {
		return nil, false
	}
	if neg {
		n.Neg(n)
	}
	return n, true
}

func parseRealVal(v string) (*big.Rat, bool) {
	v = strings.TrimSpace(v)
	if strings.HasPrefix(v, "(-") {
		r, ok := parseRealVal(v[2 : len(v)-1])
		if !ok {
			return nil, false
		}
		return r.Neg(r), true
	}
	if strings.HasPrefix(v, "(/") {
		parts := strings.Fields(v[2 : len(v)-1])
		if len(parts) != 2 {
			return nil, false
		}
		a, ok1 := parseRealVal(parts[0])
		b, ok2 := parseRealVal(parts[1])
		if !ok1 || !ok2 || b.Sign() == 0 {
			return nil, false
		}
		return a.Quo(a, b), true
	}
	r, ok := new(big.Rat).SetString(v)
	return r, ok
}

func (ms *modelSession) intOf(t *smt.Term) (*big.Int, bool) {
	v := ms.ask([]*smt.Term{t})[0]
	return parseIntVal(v)
}

// concretizer turns symbolic entry values into Go source.
type concretizer struct {
	ms      *modelSession
	ex      *Exec
	pkg     *types.Package
	imports map[string]string // path -> name
	stmts   []string
	objs    map[string]string // "type@ref" -> variable
	nvar    int
	notes   []string
	budget  int
	top     []string // top-level declarations of the test file (stub types)
}

const replayK = 12

func (cz *concretizer) qual(p *types.Package) string {
	if p == cz.pkg {
		return ""
	}
	cz.imports[p.Path()] = p.Name()
	return p.Name()
}

func (cz *concretizer) typeStr(t types.Type) string { return types.TypeString(t, cz.qual) }

func (cz *concretizer) exported(t types.Type) bool {
	// can a value of type t be named from the test package?
	switch u := t.(type) {
	case *types.Named:
		return u.Obj().Pkg() == nil || u.Obj().Pkg() == cz.pkg || u.Obj().Exported()
	case *types.Pointer:
		return cz.exported(u.Elem())
	case *types.Slice:
		return cz.exported(u.Elem())
	case *types.Array:
		return cz.exported(u.Elem())
	}
	return true
}

func (cz *concretizer) newVar(prefix string) string {
	cz.nvar++
	return fmt.Sprintf("%s%d", prefix, cz.nvar)
}

// expr returns a Go expression for the value term tm of type t in the entry state.
func (cz *concretizer) expr(tm *smt.Term, t types.Type, depth int) string {
	ex := cz.ex
	c := ex.W.C
	st := ex.entrySt
	cz.budget--
	if cz.budget < 0 || depth > 6 {
		cz.notes = append(cz.notes, "value truncated (depth/budget)")
		return cz.zero(t)
	}
	if !cz.exported(t) {
		return cz.zero(t)
	}
	switch u := t.Underlying().(type) {
	case *types.Basic:
		switch {
		case u.Info()&types.IsBoolean != 0:
			v := cz.ms.ask([]*smt.Term{tm})[0]
			return fmt.Sprintf("%s(%s)", cz.typeStr(t), v)
		case u.Info()&types.IsInteger != 0:
			n, ok := cz.ms.intOf(tm)
			if !ok {
				return cz.zero(t)
			}
			lo, hi, _, _ := intRange(t)
			if n.Cmp(lo) < 0 || n.Cmp(hi) >= 0 {
				// a value the query left unconstrained (e.g. an untouched array element): wrap it into range
				span := new(big.Int).Sub(hi, lo)
				n = new(big.Int).Add(new(big.Int).Mod(new(big.Int).Sub(n, lo), span), lo)
				cz.notes = append(cz.notes, "unconstrained model integer wrapped into machine range")
			}
			return fmt.Sprintf("%s(%s)", cz.typeStr(t), n.String())
		case u.Info()&types.IsFloat != 0:
			v := cz.ms.ask([]*smt.Term{tm})[0]
			r, ok := parseRealVal(v)
			if !ok {
				return cz.zero(t)
			}
			f, _ := r.Float64()
			return fmt.Sprintf("%s(%v)", cz.typeStr(t), f)
		case u.Info()&types.IsString != 0:
			n, ok := cz.ms.intOf(c.App("str_len", smt.Int, tm))
			if !ok || n.Sign() < 0 || n.Cmp(big.NewInt(1<<16)) > 0 {
				return `""`
			}
			ln := int(n.Int64())
			bs := make([]byte, ln)
			for i := range bs {
				bs[i] = 'a'
			}
			for i := 0; i < ln && i < replayK; i++ {
				if b, ok := cz.ms.intOf(c.App("str_at", smt.Int, tm, c.IntLit(int64(i)))); ok && b.IsInt64() && b.Int64() >= 0 && b.Int64() < 256 {
					bs[i] = byte(b.Int64())
				}
			}
			return fmt.Sprintf("%s(%q)", cz.typeStr(t), string(bs))
		}
	case *types.Pointer:
		ref, ok := cz.ms.intOf(tm)
		if !ok || ref.Sign() == 0 {
			return "nil"
		}
		key := cz.typeStr(t) + "@" + ref.String()
		if v, ok := cz.objs[key]; ok {
			return v
		}
		el := u.Elem()
		if !cz.exported(el) {
			return "nil"
		}
		v := cz.newVar("p")
		cz.objs[key] = v
		cz.stmts = append(cz.stmts, fmt.Sprintf("%s := new(%s)", v, cz.typeStr(el)))
		a := ex.toAddr(Val{T: t, Tm: c.BigLit(ref)})
		if stt, isStruct := el.Underlying().(*types.Struct); isStruct && a.Kind == aStruct {
			for i := 0; i < stt.NumFields(); i++ {
				f := stt.Field(i)
				if !f.Exported() && f.Pkg() != cz.pkg {
					continue
				}
				if !cz.modelled(f.Type()) {
					continue
				}
				fv := cz.expr(ex.load(st, a.extend(Step{Field: i})), f.Type(), depth+1)
				if fv != cz.zero(f.Type()) {
					cz.stmts = append(cz.stmts, fmt.Sprintf("%s.%s = %s", v, f.Name(), fv))
				}
			}
		} else if a.Kind == aPtr && cz.modelled(el) {
			cz.stmts = append(cz.stmts, fmt.Sprintf("*%s = %s", v, cz.expr(ex.load(st, a), el, depth+1)))
		}
		return v
	case *types.Slice:
		arr, off, ln, cp := ex.sliceParts(tm)
		ar, ok1 := cz.ms.intOf(arr)
		n, ok2 := cz.ms.intOf(ln)
		cpv, ok3 := cz.ms.intOf(cp)
		if !ok1 || !ok2 || !ok3 || ar.Sign() == 0 {
			return "nil"
		}
		if n.Cmp(big.NewInt(1<<20)) > 0 {
			cz.notes = append(cz.notes, "slice length too large to replay: "+n.String())
			cz.ms.fail = true
			return "nil"
		}
		offv, _ := cz.ms.intOf(off)
		key := fmt.Sprintf("%s@%s+%s:%s", cz.typeStr(t), ar, offv, n)
		if v, ok := cz.objs[key]; ok {
			return v
		}
		ln64 := n.Int64()
		extra := new(big.Int).Sub(cpv, n)
		capv := ln64
		if extra.Sign() > 0 {
			if extra.Cmp(big.NewInt(64)) > 0 {
				capv += 64
			} else {
				capv += extra.Int64()
			}
		}
		v := cz.newVar("s")
		cz.objs[key] = v
		cz.stmts = append(cz.stmts, fmt.Sprintf("%s := make(%s, %d, %d)", v, cz.typeStr(t), ln64, capv))
		if cz.modelled(u.Elem()) {
			h := ex.heapGet(st, ex.keyElem(u.Elem()))
			content := c.Select(h, arr)
			for i := int64(0); i < ln64 && i < replayK; i++ {
				ev := cz.expr(c.Select(content, c.Add(off, c.IntLit(i))), u.Elem(), depth+1)
				if ev != cz.zero(u.Elem()) {
					cz.stmts = append(cz.stmts, fmt.Sprintf("%s[%d] = %s", v, i, ev))
				}
			}
			if ln64 > replayK {
				cz.notes = append(cz.notes, fmt.Sprintf("slice of %d elements: only the first %d taken from the model", ln64, replayK))
			}
		}
		return v
	case *types.Struct:
		dt := ex.W.DT(ex.W.SortOf(t))
		if dt == nil {
			return cz.zero(t)
		}
		var parts []string
		for i := 0; i < u.NumFields(); i++ {
			f := u.Field(i)
			if !f.Exported() && f.Pkg() != cz.pkg {
				continue
			}
			if !cz.modelled(f.Type()) {
				continue
			}
			fv := cz.expr(c.Field(dt, i, tm), f.Type(), depth+1)
			if fv != cz.zero(f.Type()) {
				parts = append(parts, fmt.Sprintf("%s: %s", f.Name(), fv))
			}
		}
		return fmt.Sprintf("%s{%s}", cz.typeStr(t), strings.Join(parts, ", "))
	case *types.Array:
		if u.Len() > 64 {
			return cz.zero(t)
		}
		var parts []string
		for i := int64(0); i < u.Len(); i++ {
			parts = append(parts, cz.expr(c.Select(tm, c.IntLit(i)), u.Elem(), depth+1))
		}
		return fmt.Sprintf("%s{%s}", cz.typeStr(t), strings.Join(parts, ", "))
	case *types.Interface:
		if named, isNamed := t.(*types.Named); isNamed && named.Obj().Pkg() != nil {
			// an interface of a package outside the module whose methods are declared `extern attr`: a stub type
			// is generated whose methods return what the model's functions return (at zero arguments)
			prefix := named.Obj().Pkg().Path() + "." + named.Obj().Name() + "."
			attrs := map[string][]string{}
			for _, pc := range ex.externContracts() {
				for k, ufs := range pc.ExternAttr {
					if strings.HasPrefix(k, prefix) {
						if _, dup := attrs[k[len(prefix):]]; !dup {
							attrs[k[len(prefix):]] = ufs
						}
					}
				}
			}
			if len(attrs) > 0 {
				if v := cz.ms.ask([]*smt.Term{c.Eq(tm, ex.W.zeroOfSort(ex.W.Iface))})[0]; v == "true" {
					return "nil"
				}
				stub := cz.newVar("verifStub")
				var sb strings.Builder
				fmt.Fprintf(&sb, "type %s struct{}\n", stub)
				for i := 0; i < u.NumMethods(); i++ {
					m := u.Method(i)
					sig := m.Type().(*types.Signature)
					var ps []string
					ts := []*smt.Term{tm}
					sorts := []smt.Sort{tm.Sort}
					for j := 0; j < sig.Params().Len(); j++ {
						pt := sig.Params().At(j).Type()
						ps = append(ps, fmt.Sprintf("a%d %s", j, cz.typeStr(pt)))
						z := ex.W.zeroOfSort(ex.W.SortOf(pt))
						ts = append(ts, z)
						sorts = append(sorts, z.Sort)
					}
					var rts, rvs []string
					for j := 0; j < sig.Results().Len(); j++ {
						rt := sig.Results().At(j).Type()
						rts = append(rts, cz.typeStr(rt))
						if ufs, ok := attrs[m.Name()]; ok && j < len(ufs) {
							so := ex.W.SortOf(rt)
							c.DeclareFun("uf_"+ufs[j], sorts, so)
							rvs = append(rvs, cz.expr(c.App("uf_"+ufs[j], so, ts...), rt, depth+1))
						} else {
							rvs = append(rvs, cz.zero(rt))
						}
					}
					if sig.Params().Len() > 0 && len(attrs[m.Name()]) > 0 {
						cz.notes = append(cz.notes, "stub method "+m.Name()+" returns the model's value at zero arguments for every argument")
					}
					fmt.Fprintf(&sb, "func (%s) %s(%s) (%s) { return %s }\n", stub, m.Name(), strings.Join(ps, ", "), strings.Join(rts, ", "), strings.Join(rvs, ", "))
				}
				cz.top = append(cz.top, sb.String())
				return fmt.Sprintf("%s(%s{})", cz.typeStr(t), stub)
			}
		}
		tag, ok := cz.ms.intOf(c.App("iface_tag", smt.Int, tm))
		if !ok || tag.Sign() == 0 {
			return "nil"
		}
		for k, id := range ex.W.typeIDs {
			if int64(id) == tag.Int64() {
				if dynT := ex.W.typeOfID[k]; dynT != nil && cz.exported(dynT) {
					s := ex.W.SortOf(dynT)
					u := c.App("unbox_"+smt.Mangle(typeKey(dynT)), s, tm)
					return fmt.Sprintf("%s(%s)", cz.typeStr(t), cz.expr(u, dynT, depth+1))
				}
			}
		}
		cz.notes = append(cz.notes, "interface value of unknown dynamic type replaced by nil")
		return "nil"
	}
	return cz.zero(t)
}

func (cz *concretizer) modelled(t types.Type) bool {
	switch u := t.Underlying().(type) {
	case *types.Map, *types.Chan, *types.Signature:
		return false
	case *types.Struct:
		return cz.ex.W.DT(cz.ex.W.SortOf(t)) != nil
	case *types.Pointer:
		if _, ok := u.Elem().Underlying().(*types.Struct); ok {
			return cz.ex.W.DT(cz.ex.W.SortOf(u.Elem())) != nil
		}
	}
	return true
}

func (cz *concretizer) zero(t types.Type) string {
	switch u := t.Underlying().(type) {
	case *types.Basic:
		switch {
		case u.Info()&types.IsBoolean != 0:
			return fmt.Sprintf("%s(false)", cz.typeStr(t))
		case u.Info()&types.IsNumeric != 0:
			return fmt.Sprintf("%s(0)", cz.typeStr(t))
		case u.Info()&types.IsString != 0:
			return fmt.Sprintf("%s(\"\")", cz.typeStr(t))
		}
	case *types.Struct, *types.Array:
		if cz.exported(t) {
			return fmt.Sprintf("%s{}", cz.typeStr(t))
		}
	}
	return "nil"
}

// tryReplay builds a Go test from the solver's model and runs it against the real code.
func tryReplay(p *Program, r *OblResult, vdir, replayDir string) *ReplayResult {
	ex := r.Ex
	res := &ReplayResult{}
	solverIdx := 0
	for i, s := range solvers {
		if s.name == r.Res.Solver {
			solverIdx = i
		}
	}
	fn := ex.Fn
	pkg := pkgOf(fn)
	if fn.Parent() != nil {
		res.Verdict = "function literal: cannot be called from a test, no replay attempted"
		return res
	}
	ms := &modelSession{ex: ex, obl: r.Obl, solver: solverIdx, cache: map[int]string{}}
	ms.preferSmall()
	cz := &concretizer{ms: ms, ex: ex, pkg: pkg, imports: map[string]string{"fmt": "fmt", "testing": "testing"}, objs: map[string]string{}, budget: 4000}
	defer func() {
		if rec := recover(); rec != nil {
			res.Verdict = fmt.Sprintf("replay generation failed: %v", rec)
		}
	}()
	var argNames []string
	var decls []string
	for _, prm := range fn.Params {
		v := ex.params[prm.Name()]
		var e string
		if v.Tm != nil {
			e = cz.expr(v.Tm, prm.Type(), 0)
		} else {
			e = cz.zero(prm.Type())
		}
		name := prm.Name()
		if name == "_" || name == "" {
			name = cz.newVar("arg")
		}
		decls = append(decls, fmt.Sprintf("var %s %s = %s", name, cz.typeStr(prm.Type()), e))
		decls = append(decls, fmt.Sprintf("_ = %s", name))
		argNames = append(argNames, name)
	}
	if ms.fail {
		res.Verdict = "model could not be concretised"
		res.Notes = cz.notes
		return res
	}
	// call expression
	var call string
	if fn.Signature.Recv() != nil {
		call = fmt.Sprintf("%s.%s(%s)", argNames[0], fn.Name(), strings.Join(argNames[1:], ", "))
	} else {
		call = fmt.Sprintf("%s(%s)", fn.Name(), strings.Join(argNames, ", "))
	}
	nres := fn.Signature.Results().Len()
	var lhs []string
	for i := 0; i < nres; i++ {
		lhs = append(lhs, fmt.Sprintf("r%d", i))
	}
	// postcondition translation
	postCode := ""
	var pre []string
	kind := r.Obl.Kind
	if kind == "post" && ex.FC != nil {
		label := r.Obl.Name[strings.LastIndex(r.Obl.Name, ":")+1:]
		for i, cl := range ensuresOf(ex.FC) {
			l := cl.Label
			if l == "" {
				l = fmt.Sprintf("ensures%d", i+1)
			}
			if l != label {
				continue
			}
			tr := &goTranslator{cz: cz, ex: ex, fn: fn, bound: map[string]bool{}}
			code, ok := tr.tr(cl.E)
			if ok {
				pre = tr.pre
				postCode = fmt.Sprintf("if !(%s) { fmt.Println(\"VERIF-REPLAY: POST-VIOLATED %s\") } else { fmt.Println(\"VERIF-REPLAY: POST-HOLDS\") }", code, label)
			} else {
				cz.notes = append(cz.notes, "postcondition not translatable to Go: "+tr.why)
			}
		}
	}
	var sb strings.Builder
	for _, d := range cz.top {
		sb.WriteString(d + "\n")
	}
	fmt.Fprintf(&sb, "// Replay of obligation %s\n// generated by govc from the solver's model; runs the real function.\nfunc TestVerifReplay(t *testing.T) {\n", r.Obl.Name)
	for _, s := range cz.stmts {
		fmt.Fprintf(&sb, "\t%s\n", s)
	}
	for _, s := range decls {
		fmt.Fprintf(&sb, "\t%s\n", s)
	}
	for _, s := range pre {
		fmt.Fprintf(&sb, "\t%s\n", s)
	}
	sb.WriteString("\tdefer func() {\n\t\tif r := recover(); r != nil {\n\t\t\tfmt.Printf(\"VERIF-REPLAY: PANIC: %v\\n\", r)\n\t\t}\n\t}()\n")
	if nres > 0 {
		fmt.Fprintf(&sb, "\t%s := %s\n", strings.Join(lhs, ", "), call)
		for _, l := range lhs {
			fmt.Fprintf(&sb, "\t_ = %s\n", l)
		}
	} else {
		fmt.Fprintf(&sb, "\t%s\n", call)
	}
	sb.WriteString("\tfmt.Println(\"VERIF-REPLAY: RETURNED\")\n")
	if postCode != "" {
		fmt.Fprintf(&sb, "\t%s\n", postCode)
	}
	sb.WriteString("}\n")
	{
		// header last: only the packages the generated text actually names are imported
		text := sb.String()
		var hd strings.Builder
		fmt.Fprintf(&hd, "package %s\n\nimport (\n", pkg.Name())
		var imps []string
		for path := range cz.imports {
			imps = append(imps, path)
		}
		sort.Strings(imps)
		for _, path := range imps {
			if strings.Contains(text, cz.imports[path]+".") {
				fmt.Fprintf(&hd, "\t%s %q\n", cz.imports[path], path)
			}
		}
		fmt.Fprintf(&hd, ")\n\n")
		sb.Reset()
		sb.WriteString(hd.String() + text)
	}
	base := smtFileName(r.Obl.Name)
	testFile := filepath.Join(replayDir, base+"_replay_test.go")
	os.WriteFile(testFile, []byte(sb.String()), 0o644)
	res.TestFile = testFile
	res.Notes = cz.notes
	// overlay
	rel := p.relPkg(pkg.Path())
	target := filepath.Join(p.RepoDir, rel, "zz_verif_replay_test.go")
	ov := map[string]map[string]string{"Replace": {target: testFile}}
	ovPath := filepath.Join(replayDir, base+"_overlay.json")
	js, _ := json.Marshal(ov)
	os.WriteFile(ovPath, js, 0o644)
	pkgArg := "./" + rel
	cmdline := fmt.Sprintf("cd %s && ulimit -v 4000000 && go test -tags verif -overlay %s -vet=off -count=1 -timeout 60s -run '^TestVerifReplay$' -v %s", p.RepoDir, ovPath, pkgArg)
	res.Command = cmdline
	cmd := exec.Command("bash", "-c", cmdline)
	cmd.Env = append(os.Environ(), "GOFLAGS=-mod=mod", "GOPROXY=off", "GOSUMDB=off", "GOTOOLCHAIN=local")
	t0 := time.Now()
	out, _ := cmd.CombinedOutput()
	_ = t0
	res.Output = truncate(string(out), 6000)
	so := string(out)
	switch {
	case panicKinds[kind] && strings.Contains(so, "VERIF-REPLAY: PANIC"):
		res.Reproduced = true
		res.Verdict = "real code panicked on the model's input"
	case kind == "post" && strings.Contains(so, "VERIF-REPLAY: POST-VIOLATED"):
		res.Reproduced = true
		res.Verdict = "real code returned a state violating the postcondition"
	case kind == "pre" && strings.Contains(so, "VERIF-REPLAY: PANIC"):
		res.Reproduced = true
		res.Verdict = "real code panicked on the model's input (a callee was entered outside its precondition)"
	case kind == "post" && strings.Contains(so, "VERIF-REPLAY: PANIC"):
		res.Reproduced = true
		res.Verdict = "real code panicked on the model's input (postcondition unreachable)"
	case kind == "decreases" && strings.Contains(so, "test timed out"):
		res.Reproduced = true
		res.Verdict = "real code did not terminate within the replay timeout"
	case strings.Contains(so, "VERIF-REPLAY: RETURNED"):
		res.Verdict = "real code returned normally; the model does not reproduce (over-approximated state or unreachable pre-state)"
	default:
		res.Verdict = "replay inconclusive"
	}
	return res
}

func ensuresOf(fc *FuncContract) []*Clause {
	var out []*Clause
	for _, cl := range fc.Clauses {
		if cl.Kind == "ensures" {
			out = append(out, cl)
		}
	}
	return out
}

var _ = ssa.Value(nil)

package main

import (
	"fmt"
	"math/big"
	"os"
	"path/filepath"
	"regexp"
	"strconv"
	"strings"
)

// ---------------------------------------------------------------- AST

type Expr interface{}

type (
	EIdent struct{ Name string }
	EInt   struct{ V string } // decimal text (big)
	EStr   struct{ V string }
	EReal  struct{ V string } // decimal text
	EBool  struct{ V bool }
	ENil   struct{}
	EUnary struct {
		Op string
		X  Expr
	}
	EBinary struct {
		Op   string
		X, Y Expr
	}
	ESel struct {
		X    Expr
		Name string
	}
	EIndex struct{ X, I Expr }
	ESlice struct{ X, Lo, Hi Expr }
	ECall  struct {
		Fun  Expr
		Args []Expr
	}
	EOld   struct{ X Expr }
	EQuant struct {
		Q      string // forall | exists
		Var    string
		Lo, Hi Expr // nil,nil: unbounded
		Body   Expr
	}
	ELet struct {
		Var  string
		Val  Expr
		Body Expr
	}
	ECond struct{ C, A, B Expr }
)

type Clause struct {
	After  string // cut: the anchor is searched after the first line containing this text
	Forget string // cut: ghost state replaced by an unknown after the proof ("pen")
	Anchor string // cut: source text identifying the statement the clause is attached to
	Lemma  bool   // exit lemma (assumed after being obliged)
	Site   int    // exit clauses: ordinal of the return statement they apply to (0: all)
	Kind   string // requires ensures modifies invariant decreases panics assume inline exit
	Label  string
	Loop   int
	E      Expr
	Mods   []Expr
	Text   string
	Line   int
}

type VocabClause struct {
	Label    string
	Producer string // local key of the producing function in the same package
}

type LogClause struct {
	Name string
	E    Expr
}

type PredDecl struct {
	Name       string
	Params     []string
	ParamTypes []string
	ResType    string
	Body       Expr
	Kind       string // pred | spec | rec
	PkgPath    string
}

type FuncContract struct {
	Pkg           string // package path relative key (import path)
	Recv          string // receiver type name, "" for functions; leading * kept
	Name          string
	Clauses       []*Clause
	File          string
	Line          int
	Header        string
	BitWidth      int                 // symbolic & | ^ &^ on signed ints are expanded over this many bits; operands are proved to lie in [0, 2^n)
	Vocab         []VocabClause       // SGR vocabulary inclusion checks
	NoLocal       bool                // skip local queries
	OwnGhosts     bool                // ghost fields change only on objects allocated by the function (assumed)
	Cursor        bool                // tokens cursor: track the terminal's cursor position
	Tokens        bool                // interpret writes of constant escape-sequence templates as updates of the ghost pen
	Overflow      bool                // generate signed-overflow obligations for + - * in this function
	Logs          []LogClause         // ghost-log primitives: calling this function appends a value to a named ghost log
	Deterministic string              // name of the ufun that stands for this function's result in specifications
	Uses          map[string][]string // callee local key -> the labels of its postconditions assumed at calls here (absent: all)
	MapContents   []string            // init-only maps whose lookups are expanded over the entries of their literal ("*": all)
	Extern        bool                // assumed contract of a function outside the module
	Unfold        []string            // recursive definitions whose unfolding axioms are given to the solver (default: none, applications stay opaque)
}

func (fc *FuncContract) Key() string {
	if fc.Recv == "" {
		return fc.Name
	}
	if strings.HasPrefix(fc.Recv, "*") {
		return "(*" + fc.Recv[1:] + ")." + fc.Name
	}
	return "(" + fc.Recv + ")." + fc.Name
}

type PkgContracts struct {
	Funcs        map[string]*FuncContract
	Preds        map[string]*PredDecl
	Inline       map[string]bool
	NoInline     map[string]bool
	Assumes      []string
	Files        []string
	Bits         map[string]int
	BVTypes      []string                 // unsigned named types modelled natively as bit-vectors of their size
	PureFields   map[string]bool          // "Type.Field": calling the func value stored in this field has no side effects (assumed)
	FreshResult  []string                 // functions (localKey prefix) whose slice/pointer result is exclusively owned (assumed)
	ExternAttr   map[string][]string      // "pkgpath.Type.Method" or callee string -> ufun name per result: the result is a fixed function of receiver and arguments (assumed)
	ExternFuncs  map[string]*FuncContract // callee string -> assumed contract of a function outside the module
	ExternNonNil map[string]bool
	LogFields    map[string]string // "Type.Field" -> ghost log that records calls through the field
	PkgPath      string
}

// ---------------------------------------------------------------- lexer

type tok struct {
	k string // ident int str char op eof
	v string
}

func lex(s string) ([]tok, error) {
	var out []tok
	i := 0
	ops := []string{"<==>", "==>", "&&", "||", "==", "!=", "<=", ">=", "<<", ">>", "&^", "..", "+", "-", "*", "/", "%", "&", "|", "^", "<", ">", "!", "(", ")", "[", "]", ",", ".", ":", "?", "=", "{", "}"}
	for i < len(s) {
		ch := s[i]
		switch {
		case ch == ' ' || ch == '\t' || ch == '\n' || ch == '\r':
			i++
		case ch == '_' || (ch >= 'a' && ch <= 'z') || (ch >= 'A' && ch <= 'Z'):
			j := i
			for j < len(s) && (s[j] == '_' || (s[j] >= 'a' && s[j] <= 'z') || (s[j] >= 'A' && s[j] <= 'Z') || (s[j] >= '0' && s[j] <= '9')) {
				j++
			}
			out = append(out, tok{"ident", s[i:j]})
			i = j
		case ch >= '0' && ch <= '9':
			j := i
			for j < len(s) && ((s[j] >= '0' && s[j] <= '9') || (s[j] >= 'a' && s[j] <= 'f') || (s[j] >= 'A' && s[j] <= 'F') || s[j] == 'x' || s[j] == 'X' || s[j] == '_' || s[j] == 'o') {
				// stop before ".." range operator
				j++
			}
			// decimal fraction (but not the ".." range operator)
			if j+1 < len(s) && s[j] == '.' && s[j+1] >= '0' && s[j+1] <= '9' {
				k := j + 1
				for k < len(s) && s[k] >= '0' && s[k] <= '9' {
					k++
				}
				out = append(out, tok{"real", s[i:k]})
				i = k
				continue
			}
			out = append(out, tok{"int", s[i:j]})
			i = j
		case ch == '"':
			j := i + 1
			for j < len(s) && s[j] != '"' {
				if s[j] == '\\' {
					j++
				}
				j++
			}
			v, err := strconv.Unquote(s[i : j+1])
			if err != nil {
				return nil, fmt.Errorf("bad string literal %s", s[i:j+1])
			}
			out = append(out, tok{"str", v})
			i = j + 1
		case ch == '\'':
			j := i + 1
			for j < len(s) && s[j] != '\'' {
				if s[j] == '\\' {
					j++
				}
				j++
			}
			v, _, _, err := strconv.UnquoteChar(s[i+1:j], '\'')
			if err != nil {
				return nil, fmt.Errorf("bad char literal %s", s[i:j+1])
			}
			out = append(out, tok{"int", strconv.Itoa(int(v))})
			i = j + 1
		default:
			matched := false
			for _, op := range ops {
				if strings.HasPrefix(s[i:], op) {
					out = append(out, tok{"op", op})
					i += len(op)
					matched = true
					break
				}
			}
			if !matched {
				return nil, fmt.Errorf("unexpected character %q", ch)
			}
		}
	}
	out = append(out, tok{"eof", ""})
	return out, nil
}

// ---------------------------------------------------------------- parser

type parser struct {
	toks []tok
	pos  int
}

func (p *parser) peek() tok { return p.toks[p.pos] }
func (p *parser) next() tok {
	t := p.toks[p.pos]
	if p.pos < len(p.toks)-1 {
		p.pos++
	}
	return t
}
func (p *parser) isOp(v string) bool { t := p.peek(); return t.k == "op" && t.v == v }
func (p *parser) isKw(v string) bool { t := p.peek(); return t.k == "ident" && t.v == v }
func (p *parser) expectOp(v string) {
	if !p.isOp(v) {
		panic(fmt.Errorf("expected %q, found %q", v, p.peek().v))
	}
	p.next()
}

func ParseExpr(s string) (e Expr, err error) {
	toks, err := lex(s)
	if err != nil {
		return nil, err
	}
	p := &parser{toks: toks}
	defer func() {
		if r := recover(); r != nil {
			if re, ok := r.(error); ok {
				err = fmt.Errorf("%v in %q", re, s)
				return
			}
			panic(r)
		}
	}()
	e = p.expr()
	if p.peek().k != "eof" {
		return nil, fmt.Errorf("trailing tokens at %q in %q", p.peek().v, s)
	}
	return e, nil
}

func (p *parser) expr() Expr {
	if p.isKw("forall") || p.isKw("exists") {
		q := p.next().v
		v := p.next()
		if v.k != "ident" {
			panic(fmt.Errorf("quantifier variable expected"))
		}
		var lo, hi Expr
		if p.isKw("in") {
			p.next()
			lo = p.binary(4) // above comparison level so that ".." and ":" terminate
			p.expectOp("..")
			hi = p.binary(4)
		}
		p.expectOp(":")
		body := p.expr()
		return &EQuant{Q: q, Var: v.v, Lo: lo, Hi: hi, Body: body}
	}
	if p.isKw("let") {
		p.next()
		v := p.next()
		p.expectOp("=")
		val := p.ternary()
		if !p.isKw("in") {
			panic(fmt.Errorf("expected 'in' in let"))
		}
		p.next()
		body := p.expr()
		return &ELet{Var: v.v, Val: val, Body: body}
	}
	return p.iff()
}

func (p *parser) iff() Expr {
	x := p.implies()
	for p.isOp("<==>") {
		p.next()
		y := p.implies()
		x = &EBinary{"<==>", x, y}
	}
	return x
}

func (p *parser) implies() Expr {
	x := p.ternary()
	if p.isOp("==>") {
		p.next()
		var y Expr
		if p.isKw("forall") || p.isKw("exists") || p.isKw("let") {
			y = p.expr()
		} else {
			y = p.implies()
		}
		return &EBinary{"==>", x, y}
	}
	return x
}

func (p *parser) ternary() Expr {
	c := p.binary(0)
	if p.isOp("?") {
		p.next()
		a := p.ternary()
		p.expectOp(":")
		b := p.ternary()
		return &ECond{c, a, b}
	}
	return c
}

var binPrec = map[string]int{
	"||": 1, "&&": 2,
	"==": 3, "!=": 3, "<": 3, "<=": 3, ">": 3, ">=": 3,
	"+": 4, "-": 4, "|": 4, "^": 4,
	"*": 5, "/": 5, "%": 5, "&": 5, "<<": 5, ">>": 5, "&^": 5,
}

func (p *parser) binary(min int) Expr {
	x := p.unary()
	for {
		t := p.peek()
		if t.k != "op" {
			return x
		}
		pr, ok := binPrec[t.v]
		if !ok || pr < min || pr == 0 {
			return x
		}
		if min == 0 && pr < 1 {
			return x
		}
		p.next()
		var y Expr
		if (t.v == "&&" || t.v == "||") && (p.isKw("forall") || p.isKw("exists") || p.isKw("let")) {
			y = p.expr()
		} else {
			y = p.binary(pr + 1)
		}
		x = &EBinary{t.v, x, y}
	}
}

func (p *parser) unary() Expr {
	if p.isOp("!") || p.isOp("-") || p.isOp("^") {
		op := p.next().v
		return &EUnary{op, p.unary()}
	}
	return p.postfix()
}

func (p *parser) postfix() Expr {
	x := p.primary()
	for {
		switch {
		case p.isOp("."):
			p.next()
			n := p.next()
			if n.k != "ident" {
				panic(fmt.Errorf("selector name expected"))
			}
			x = &ESel{x, n.v}
		case p.isOp("["):
			p.next()
			var lo, hi Expr
			if !p.isOp(":") {
				lo = p.ternary()
			}
			if p.isOp(":") {
				p.next()
				if !p.isOp("]") {
					hi = p.ternary()
				}
				p.expectOp("]")
				x = &ESlice{x, lo, hi}
			} else {
				p.expectOp("]")
				x = &EIndex{x, lo}
			}
		case p.isOp("("):
			p.next()
			var args []Expr
			for !p.isOp(")") {
				args = append(args, p.expr())
				if p.isOp(",") {
					p.next()
				}
			}
			p.expectOp(")")
			if id, ok := x.(*EIdent); ok && id.Name == "old" && len(args) == 1 {
				x = &EOld{args[0]}
			} else {
				x = &ECall{x, args}
			}
		default:
			return x
		}
	}
}

func (p *parser) primary() Expr {
	t := p.next()
	switch t.k {
	case "ident":
		switch t.v {
		case "true":
			return &EBool{true}
		case "false":
			return &EBool{false}
		case "nil":
			return &ENil{}
		}
		return &EIdent{t.v}
	case "int":
		s := strings.ReplaceAll(t.v, "_", "")
		n, ok := new(big.Int).SetString(s, 0)
		if !ok {
			panic(fmt.Errorf("bad integer %q", t.v))
		}
		return &EInt{n.String()}
	case "real":
		return &EReal{t.v}
	case "str":
		return &EStr{t.v}
	case "op":
		if t.v == "(" {
			e := p.expr()
			p.expectOp(")")
			return e
		}
		if t.v == "*" { // explicit deref: ignored (selectors auto-deref)
			return &EUnary{"*", p.unary()}
		}
	}
	panic(fmt.Errorf("unexpected token %q", t.v))
}

// ---------------------------------------------------------------- file reader

var blockRe = regexp.MustCompile(`(?s)/\*@(.*?)@\*/`)
var clauseKw = map[string]bool{"requires": true, "ensures": true, "modifies": true, "loop": true, "panics": true,
	"assume": true, "exit": true, "func": true, "pred": true, "spec": true, "inline": true, "noinline": true, "pure": true, "ghost": true, "rec": true, "bits": true, "unfold": true, "logs": true, "overflow": true, "freshresult": true, "lemma": true, "bitwidth": true, "ufun": true, "purefield": true, "tokens": true, "bvtype": true, "vocab": true, "extern": true, "sets": true, "logfield": true, "mapcontents": true, "deterministic": true, "cut": true, "uses": true, "ownghosts": true, "nolocal": true}

// ReadContracts parses every contracts_verif*.go file of a package directory.
func ReadContracts(dir string) (*PkgContracts, error) {
	pc := &PkgContracts{Funcs: map[string]*FuncContract{}, Preds: map[string]*PredDecl{}, Inline: map[string]bool{}, NoInline: map[string]bool{}}
	files, _ := filepath.Glob(filepath.Join(dir, "contracts_verif*.go"))
	for _, f := range files {
		data, err := os.ReadFile(f)
		if err != nil {
			return nil, err
		}
		pc.Files = append(pc.Files, f)
		src := string(data)
		for _, loc := range blockRe.FindAllStringSubmatchIndex(src, -1) {
			body := src[loc[2]:loc[3]]
			line0 := 1 + strings.Count(src[:loc[2]], "\n")
			if err := pc.parseBlock(body, f, line0); err != nil {
				return nil, err
			}
		}
	}
	return pc, nil
}

type rawItem struct {
	kw   string
	text string
	line int
}

func (pc *PkgContracts) parseBlock(body, file string, line0 int) error {
	// split into items: a line whose first word is a keyword starts a new item
	var items []rawItem
	for i, ln := range strings.Split(body, "\n") {
		trim := strings.TrimSpace(ln)
		if trim == "" || strings.HasPrefix(trim, "--") || strings.HasPrefix(trim, "//") {
			continue
		}
		if j := strings.Index(trim, " //"); j >= 0 {
			trim = strings.TrimSpace(trim[:j])
		}
		w := trim
		if j := strings.IndexAny(trim, " \t("); j >= 0 {
			w = trim[:j]
		}
		if clauseKw[w] {
			items = append(items, rawItem{w, strings.TrimSpace(trim[len(w):]), line0 + i})
		} else if len(items) > 0 {
			items[len(items)-1].text += " " + trim
		} else {
			return fmt.Errorf("%s:%d: text outside any declaration: %s", file, line0+i, trim)
		}
	}
	var cur *FuncContract
	for _, it := range items {
		errf := func(format string, a ...interface{}) error {
			return fmt.Errorf("%s:%d: %s", file, it.line, fmt.Sprintf(format, a...))
		}
		switch it.kw {
		case "func":
			fc, err := parseFuncHeader(it.text)
			if err != nil {
				return errf("%v", err)
			}
			fc.File, fc.Line = file, it.line
			if _, dup := pc.Funcs[fc.Key()]; dup {
				return errf("duplicate contract for %s", fc.Key())
			}
			pc.Funcs[fc.Key()] = fc
			cur = fc
		case "bits":
			cur = nil
			f := strings.Fields(it.text)
			if len(f) != 2 {
				return errf("bits <TypeName> <width>")
			}
			n, err := strconv.Atoi(f[1])
			if err != nil {
				return errf("bits width: %v", err)
			}
			if pc.Bits == nil {
				pc.Bits = map[string]int{}
			}
			pc.Bits[f[0]] = n
		case "ghost":
			// ghost name(p *T) R  -- a ghost field of objects of a type outside the module (zero when the object is created)
			cur = nil
			op := strings.Index(it.text, "(")
			cl := strings.LastIndex(it.text, ")")
			if op < 0 || cl < op {
				return errf("ghost header")
			}
			pd := &PredDecl{Name: strings.TrimSpace(it.text[:op]), Kind: "ghost", ResType: strings.TrimSpace(it.text[cl+1:])}
			f := strings.Fields(strings.TrimSpace(it.text[op+1 : cl]))
			if len(f) != 2 || !strings.HasPrefix(f[1], "*") {
				return errf("ghost name(p *T) R")
			}
			pd.Params = []string{f[0]}
			pd.ParamTypes = []string{f[1]}
			pc.Preds[pd.Name] = pd
		case "ufun":
			// ufun name(p1 T1, p2 T2) R  -- uninterpreted specification function
			cur = nil
			op := strings.Index(it.text, "(")
			cl := strings.LastIndex(it.text, ")")
			if op < 0 || cl < op {
				return errf("ufun header")
			}
			pd := &PredDecl{Name: strings.TrimSpace(it.text[:op]), Kind: "ufun", ResType: strings.TrimSpace(it.text[cl+1:])}
			for _, prm := range strings.Split(it.text[op+1:cl], ",") {
				f := strings.Fields(strings.TrimSpace(prm))
				if len(f) == 2 {
					pd.Params = append(pd.Params, f[0])
					pd.ParamTypes = append(pd.ParamTypes, f[1])
				}
			}
			pc.Preds[pd.Name] = pd
		case "pred", "spec", "rec":
			cur = nil
			eq := strings.Index(it.text, "=")
			if eq < 0 {
				return errf("pred without '='")
			}
			head := it.text[:eq]
			op := strings.Index(head, "(")
			cl := strings.LastIndex(head, ")")
			if op < 0 || cl < op {
				return errf("pred header")
			}
			pd := &PredDecl{Name: strings.TrimSpace(head[:op]), Kind: it.kw, ResType: strings.TrimSpace(head[cl+1:])}
			for _, prm := range strings.Split(head[op+1:cl], ",") {
				prm = strings.TrimSpace(prm)
				if prm == "" {
					continue
				}
				f := strings.Fields(prm)
				pd.Params = append(pd.Params, f[0])
				if len(f) > 1 {
					pd.ParamTypes = append(pd.ParamTypes, f[1])
				} else {
					pd.ParamTypes = append(pd.ParamTypes, "")
				}
			}
			e, err := ParseExpr(it.text[eq+1:])
			if err != nil {
				return errf("%v", err)
			}
			pd.Body = e
			pc.Preds[pd.Name] = pd
		case "extern":
			// extern attr <callee> = <ufun>[, <ufun>...]   |   extern func <callee>(<param names>)  followed by requires/ensures
			cur = nil
			f := strings.Fields(it.text)
			if len(f) < 2 {
				return errf("extern attr|func ...")
			}
			rest := strings.TrimSpace(it.text[len(f[0]):])
			switch f[0] {
			case "attr":
				eq := strings.Index(rest, "=")
				if eq < 0 {
					return errf("extern attr <callee> = <ufun>, ...")
				}
				key := strings.TrimSpace(rest[:eq])
				var ufs []string
				rhs := strings.TrimSpace(rest[eq+1:])
				if strings.HasSuffix(rhs, " nonnil") {
					// the (interface or pointer) results are never nil (assumed)
					rhs = strings.TrimSpace(strings.TrimSuffix(rhs, " nonnil"))
					if pc.ExternNonNil == nil {
						pc.ExternNonNil = map[string]bool{}
					}
					pc.ExternNonNil[key] = true
				}
				for _, u := range strings.Split(rhs, ",") {
					ufs = append(ufs, strings.TrimSpace(u))
				}
				if pc.ExternAttr == nil {
					pc.ExternAttr = map[string][]string{}
				}
				pc.ExternAttr[key] = ufs
				pc.Assumes = append(pc.Assumes, "extern attr "+key+": the result is a fixed function of the receiver and arguments (no effects, never changes)")
			case "func":
				op := strings.LastIndex(rest, "(")
				cl := strings.LastIndex(rest, ")")
				if op < 0 || cl < op {
					return errf("extern func <callee>(<params>)")
				}
				key := strings.TrimSpace(rest[:op])
				fc := &FuncContract{Name: key, Header: rest, File: file, Line: it.line, Extern: true}
				if pc.ExternFuncs == nil {
					pc.ExternFuncs = map[string]*FuncContract{}
				}
				pc.ExternFuncs[key] = fc
				pc.Assumes = append(pc.Assumes, "extern func "+key+": contract of a function outside the module, assumed not proved")
				cur = fc
			default:
				return errf("extern attr|func ...")
			}
		case "bvtype":
			cur = nil
			pc.BVTypes = append(pc.BVTypes, strings.TrimSpace(it.text))
		case "purefield":
			cur = nil
			if pc.PureFields == nil {
				pc.PureFields = map[string]bool{}
			}
			pc.PureFields[strings.TrimSpace(it.text)] = true
			pc.Assumes = append(pc.Assumes, "purefield "+strings.TrimSpace(it.text)+": calls through this function-typed field have no effect on modelled state")
		case "logfield":
			// logfield Type.Field logname : calls through this function-typed field append their first argument to the
			// ghost log and have no other effect on modelled state (assumed)
			cur = nil
			f := strings.Fields(it.text)
			if len(f) != 2 {
				return errf("logfield Type.Field logname")
			}
			if pc.LogFields == nil {
				pc.LogFields = map[string]string{}
			}
			pc.LogFields[f[0]] = f[1]
			pc.Assumes = append(pc.Assumes, "logfield "+f[0]+": calls through this function-typed field have no effect on modelled state (they are recorded in ghost log "+f[1]+")")
		case "freshresult":
			cur = nil
			pc.FreshResult = append(pc.FreshResult, strings.TrimSpace(it.text))
			pc.Assumes = append(pc.Assumes, "freshresult "+strings.TrimSpace(it.text)+": the result is an object referenced from nowhere else")
		case "inline":
			cur = nil
			pc.Inline[strings.TrimSpace(it.text)] = true
		case "noinline":
			cur = nil
			pc.NoInline[strings.TrimSpace(it.text)] = true
		default:
			if cur == nil {
				return errf("clause %q outside a func block", it.kw)
			}
			cl := &Clause{Kind: it.kw, Text: it.text, Line: it.line}
			text := it.text
			switch it.kw {
			case "sets":
				// sets ghost(x) = expr   (extern func only; expr is evaluated in the state before the call)
				eq := strings.Index(text, "=")
				if eq < 0 {
					return errf("sets ghost(x) = expr")
				}
				lhs, err := ParseExpr(text[:eq])
				if err != nil {
					return errf("%v", err)
				}
				rhs, err := ParseExpr(text[eq+1:])
				if err != nil {
					return errf("%v", err)
				}
				call, ok := lhs.(*ECall)
				if !ok || len(call.Args) != 1 {
					return errf("sets ghost(x) = expr")
				}
				cl.E = rhs
				cl.Mods = []Expr{lhs}
				cur.Clauses = append(cur.Clauses, cl)
				continue
			case "cut":
				// cut "<source text>" label: expr -- proved where the first statement whose source line contains the text
				// begins, then assumed from there on (a stepping stone that shortens the paths later obligations must consider)
				t := strings.TrimSpace(text)
				if !strings.HasPrefix(t, "\"") {
					return errf("cut \"<source text>\" label: expr")
				}
				end := strings.Index(t[1:], "\"")
				if end < 0 {
					return errf("cut: unterminated anchor text")
				}
				cl.Anchor = t[1 : 1+end]
				text = strings.TrimSpace(t[end+2:])
				// "<text>" after "<text2>" : the first line containing text that comes after the first line containing text2
				if strings.HasPrefix(text, "after \"") {
					t2 := text[len("after \""):]
					e2 := strings.Index(t2, "\"")
					if e2 < 0 {
						return errf("cut \"<text>\" after \"<text2>\" ...")
					}
					cl.After = t2[:e2]
					text = strings.TrimSpace(t2[e2+1:])
				}
				// "<text>" @N : the N-th source line (from 1) containing the text
				if strings.HasPrefix(text, "@") {
					f := strings.Fields(text)
					n, err := strconv.Atoi(f[0][1:])
					if err != nil || n < 1 {
						return errf("cut \"<text>\" @N ...")
					}
					cl.Site = n
					text = strings.TrimSpace(text[len(f[0]):])
				}
				// cut "..." forget pen label: expr -- after the proof the pen is replaced by an unknown one of which only
				// expr is known: what happened to it before this point no longer enters later queries
				if strings.HasPrefix(text, "forget pen ") {
					cl.Forget = "pen"
					text = strings.TrimSpace(strings.TrimPrefix(text, "forget pen "))
				}
				// cut "..." assume label: expr -- reason : an assumption stated at that point (listed with the assumptions)
				if strings.HasPrefix(text, "assume ") {
					cl.Forget = "assume"
					text = strings.TrimSpace(strings.TrimPrefix(text, "assume "))
					if j := strings.Index(text, " -- "); j >= 0 {
						pc.Assumes = append(pc.Assumes, cur.Key()+": at \""+cl.Anchor+"\": "+text)
						text = text[:j]
					} else {
						return errf("cut ... assume label: expr -- reason")
					}
				}
			case "deterministic":
				// deterministic <ufun>: the result is a fixed function of the arguments, named <ufun> in specifications (assumed)
				cur.Deterministic = strings.TrimSpace(text)
				pc.Assumes = append(pc.Assumes, cur.Key()+": deterministic -- its result is a fixed function of its arguments (named "+cur.Deterministic+")")
				continue
			case "uses":
				// uses <callee>: label, label -- at calls of <callee> (local key, same package) only the named postconditions
				// are assumed; the others are not needed here and would only enlarge the queries
				j := strings.Index(text, ":")
				if j < 0 {
					return errf("uses <callee>: label, ...")
				}
				if cur.Uses == nil {
					cur.Uses = map[string][]string{}
				}
				k := strings.TrimSpace(text[:j])
				for _, f := range strings.FieldsFunc(text[j+1:], func(r rune) bool { return r == ',' || r == ' ' }) {
					cur.Uses[k] = append(cur.Uses[k], f)
				}
				continue
			case "mapcontents":
				// mapcontents m1, m2 | *  -- lookups in these init-only maps are expanded over the literal's entries
				for _, f := range strings.FieldsFunc(text, func(r rune) bool { return r == ',' || r == ' ' }) {
					cur.MapContents = append(cur.MapContents, f)
				}
				continue
			case "overflow":
				cur.Overflow = true
				continue
			case "tokens":
				// tokens [cursor]: with "cursor" the terminal's cursor position is tracked as well (CUP sets it, text moves it)
				cur.Tokens = true
				if strings.TrimSpace(text) == "cursor" {
					cur.Cursor = true
				}
				continue
			case "nolocal":
				// nolocal: do not try the local (history-free) queries for this function: its loops and exits lean on
				// facts established before the loops, and the attempts only cost time
				cur.NoLocal = true
				continue
			case "ownghosts":
				// ownghosts -- reason: the ghost fields this function changes belong to objects it allocates itself
				// (ASSUMED; e.g. a buffer obtained from a constructor outside the module): for the caller they keep
				// their values on every object that existed before the call
				cur.OwnGhosts = true
				pc.Assumes = append(pc.Assumes, cur.Key()+": ownghosts "+text)
				continue
			case "vocab":
				// vocab <label>: handles <producer func key>
				j := strings.Index(text, ":")
				k := strings.Index(text, "handles")
				if j < 0 || k < j {
					return errf("vocab <label>: handles <function>")
				}
				cur.Vocab = append(cur.Vocab, VocabClause{Label: strings.TrimSpace(text[:j]), Producer: strings.TrimSpace(text[k+len("handles"):])})
				continue
			case "bitwidth":
				n, err := strconv.Atoi(strings.TrimSpace(text))
				if err != nil || n < 1 || n > 64 {
					return errf("bitwidth <1..64>")
				}
				cur.BitWidth = n
				continue
			case "logs":
				// logs <logname>: <expr>
				j := strings.Index(text, ":")
				if j < 0 {
					return errf("logs <name>: <expr>")
				}
				e, err := ParseExpr(text[j+1:])
				if err != nil {
					return errf("%v", err)
				}
				cur.Logs = append(cur.Logs, LogClause{Name: strings.TrimSpace(text[:j]), E: e})
				continue
			case "unfold":
				cur.Unfold = []string{}
				for _, f := range strings.FieldsFunc(text, func(r rune) bool { return r == ',' || r == ' ' }) {
					if f != "none" {
						cur.Unfold = append(cur.Unfold, f)
					}
				}
				continue
			case "loop":
				f := strings.Fields(text)
				if len(f) < 3 {
					return errf("loop clause: loop N invariant|decreases expr")
				}
				n := -1
				if f[0] != "*" {
					var err error
					n, err = strconv.Atoi(f[0])
					if err != nil {
						return errf("loop ordinal: %v", err)
					}
				}
				cl.Loop = n
				cl.Kind = f[1] // invariant | decreases | modifies
				text = strings.TrimSpace(strings.SplitN(text, f[1], 2)[1])
			case "panics":
				text = strings.TrimSpace(strings.TrimPrefix(text, "when"))
			case "exit":
				// exit [N] assert|lemma ...: N selects one return statement (source order, from 1)
				if f := strings.Fields(text); len(f) > 0 {
					if n, err := strconv.Atoi(f[0]); err == nil {
						cl.Site = n
						text = strings.TrimSpace(text[len(f[0]):])
					}
				}
				if strings.HasPrefix(text, "lemma") {
					// exit lemma: proved at every return site, then available to the later exit clauses and the postconditions
					cl.Lemma = true
					text = strings.TrimSpace(strings.TrimPrefix(text, "lemma"))
				} else {
					text = strings.TrimSpace(strings.TrimPrefix(text, "assert"))
				}
			case "assume":
				pc.Assumes = append(pc.Assumes, cur.Key()+": "+text)
				if j := strings.Index(text, " -- "); j >= 0 {
					text = text[:j]
				} else {
					cl.Kind = "note"
				}
			}
			if cl.Kind == "note" {
				continue
			}
			if cl.Kind == "modifies" && cl.Loop != 0 {
				return errf("loop clauses are invariant, decreases, assert or `preserves old` (there is no loop modifies)")
			}
			if cl.Kind == "modifies" {
				for _, part := range splitTop(text, ',') {
					part = strings.TrimSpace(part)
					if part == "" {
						continue
					}
					if part == "*" {
						cl.Mods = append(cl.Mods, &EIdent{"*"})
						continue
					}
					if part == "nothing" {
						continue
					}
					e, err := ParseExpr(part)
					if err != nil {
						return errf("%v", err)
					}
					cl.Mods = append(cl.Mods, e)
				}
				cur.Clauses = append(cur.Clauses, cl)
				continue
			}
			if cl.Kind == "preserves" {
				// loop N preserves old
				if strings.TrimSpace(text) != "old" {
					return errf("loop N preserves old")
				}
				cur.Clauses = append(cur.Clauses, cl)
				continue
			}
			// optional label
			if m := labelRe.FindStringSubmatch(text); m != nil {
				cl.Label = m[1]
				text = text[len(m[0]):]
			}
			e, err := ParseExpr(text)
			if err != nil {
				return errf("%v", err)
			}
			cl.E = e
			cur.Clauses = append(cur.Clauses, cl)
		}
	}
	return nil
}

var labelRe = regexp.MustCompile(`^([A-Za-z_][A-Za-z0-9_]*)\s*:\s*`)

func splitTop(s string, sep byte) []string {
	var out []string
	depth := 0
	last := 0
	for i := 0; i < len(s); i++ {
		switch s[i] {
		case '(', '[':
			depth++
		case ')', ']':
			depth--
		default:
			if s[i] == sep && depth == 0 {
				out = append(out, s[last:i])
				last = i + 1
			}
		}
	}
	out = append(out, s[last:])
	return out
}

var funcHdrRe = regexp.MustCompile(`^(?:\(\s*(\w+)\s+(\*?\w+)\s*\)\s*)?([\w$]+)\s*\(`)

func parseFuncHeader(s string) (*FuncContract, error) {
	m := funcHdrRe.FindStringSubmatch(s)
	if m == nil {
		return nil, fmt.Errorf("cannot parse func header %q", s)
	}
	return &FuncContract{Recv: m[2], Name: m[3], Header: s}, nil
}

package main

import (
	"fmt"
	"go/ast"
	"go/constant"
	"go/token"
	"go/types"
	"math/big"
	"os"
	"sort"
	"strings"
	"sync"

	"golang.org/x/tools/go/ssa"

	"govc/smt"
)

// Obligation is one proof goal: assumptions[:NAssume] /\ Guard ==> Goal.
type Obligation struct {
	Name    string
	Kind    string
	Guard   *smt.Term
	Goal    *smt.Term
	NAssume int
	Pos     token.Position
	Note    string
	// ExpectSat marks vacuity guards: the query Guard (without negated goal) must be satisfiable.
	ExpectSat bool
	// Parts: the obligation is the conjunction of these sub-obligations (one per return site);
	// it is discharged iff every part is. Names stay stable when return sites are added or removed.
	Parts []*Obligation
}

// Exec verifies one top-level function.
type Exec struct {
	W           *World
	Prog        *Program
	tailMode    bool // executing a duplicated tail (see dupTail)
	tailCtr     map[string]int
	tailParts   map[string][]*Obligation
	tailOrder   []string
	expMemo     map[[3]int]*smt.Term // memo of expandForall for the query being built
	matchMemo   map[[3]int]*smt.Term
	skMemo      map[[3]int]*smt.Term
	nbrCands    []*smt.Term // neighbours (k-1, k+1) of the current query's skolem indices
	divFacts    map[[2]int]bool
	bvLeaf      map[[2]int]*smt.Term // bit-vector constants standing for integer leaves of `bvtype` types
	localFacts  []*smt.Term          // conditions of the enclosing ?: branches while a specification is evaluated
	unsignedUF  map[string]bool      // uninterpreted functions whose result has an unsigned Go type
	atoms       map[int]bool
	Fn          *ssa.Function
	FC          *FuncContract
	PC          *PkgContracts
	assumes     []*smt.Term
	Obls        []*Obligation
	keys        map[string]*HeapKey
	epochCtr    int
	bitsDecl    map[string]int
	Abstr       map[string]bool // abstraction notes
	Unsound     map[string]bool // constructs that make results untrustworthy
	quiet       int             // >0: suppress obligations (spec-level inlining)
	noCover     int
	siteCtr     map[string]int
	depth       int
	entrySt     *State
	params      map[string]Val
	paramOrd    []string
	inlineStack []*ssa.Function
	ModelTerms  map[string]*smt.Term
	// recursive spec functions
	recOpen      []recOpenT
	recDefs      map[string]*recDef
	recOrder     []string
	recMemo      map[string]string
	recReads     map[string]map[string]*smt.Term
	recCtr       int
	readLog      map[string]*smt.Term
	loopParts    map[string][]*Obligation
	loopOrder    []string
	buildMu      sync.Mutex     // serialises lazy query construction (the term context is not thread-safe)
	histLinks    map[int]bool   // indices of the hypotheses (cut => path condition before the cut) added at forgetting cuts
	linkBit      map[int]uint64 // link constant (term id) -> its bit
	linkMemo     map[int]uint64
	linkOverflow bool
	noSlice      bool // query construction keeps every hypothesis (confirmation of "sat" answers, replay)
	coi          int  // > 0: query construction keeps only the cone of influence of the goal, that many rounds (a further weakening)
	dropLinks    bool // query construction leaves the history links out ("local" queries)
	assumed      map[int]bool
	styleT       types.Type
	tokenLog     []string
	exitParts    map[string][]*Obligation
	exitOrder    []string
	idxTerms     map[int]bool
	idxOrder     []*smt.Term
}

func (ex *Exec) noteIdx(t *smt.Term) {
	if t.Kind == smt.KLit || ex.quiet > 0 {
		return
	}
	if ex.idxTerms == nil {
		ex.idxTerms = map[int]bool{}
	}
	if !ex.idxTerms[t.ID] {
		ex.idxTerms[t.ID] = true
		ex.idxOrder = append(ex.idxOrder, t)
	}
}

type recOpenT struct {
	pd          *PredDecl
	st          *State
	placeholder string
}

type Frame struct {
	fn        *ssa.Function
	vals      map[ssa.Value]Val
	prefix    string
	defers    []*ssa.Defer
	cuts      map[ssa.Instruction][]*Clause // cut clauses by the instruction they are attached to
	deferCond map[*ssa.Defer]*smt.Term      // path condition under which each defer statement was reached
	fc        *FuncContract
	pc        *PkgContracts
	entry     *State
	top       bool
	loops     map[*ssa.BasicBlock]*loopInfo
	free      []Val
	rets      []retInfo
	// per-block bookkeeping
	outSt    map[*ssa.BasicBlock]*State
	edgeCond map[[2]int]*smt.Term
	inReach  map[*ssa.BasicBlock]*smt.Term
	curBlock *ssa.BasicBlock
}

// noteLink records a path-condition constant introduced at a loop head or a forgetting cut.
func (ex *Exec) noteLink(k *smt.Term) {
	if ex.linkBit == nil {
		ex.linkBit = map[int]uint64{}
	}
	if len(ex.linkBit) < 64 {
		ex.linkBit[k.ID] = 1 << uint(len(ex.linkBit))
	} else {
		ex.linkOverflow = true
	}
}

// linksIn: the set (as bits) of link constants occurring in t.
func (ex *Exec) linksIn(t *smt.Term) uint64 {
	if b, ok := ex.linkBit[t.ID]; ok {
		return b
	}
	if ex.linkMemo == nil {
		ex.linkMemo = map[int]uint64{}
	}
	if b, ok := ex.linkMemo[t.ID]; ok {
		return b
	}
	var b uint64
	for _, a := range t.Args {
		b |= ex.linksIn(a)
	}
	ex.linkMemo[t.ID] = b
	return b
}

func (ex *Exec) assume(t *smt.Term) {
	if t == nil || t.IsTrue() {
		return
	}
	if ex.assumed == nil {
		ex.assumed = map[int]bool{}
	}
	if ex.assumed[t.ID] {
		return // already assumed earlier (prefix order is preserved: the first occurrence stays)
	}
	ex.assumed[t.ID] = true
	ex.assumes = append(ex.assumes, t)
	ex.recordAtoms(t)
}

// recordAtoms remembers the conjuncts of an unconditional assumption (used to pick the simple form of a
// division when the sign of an operand is already known).
func (ex *Exec) recordAtoms(t *smt.Term) {
	if ex.atoms == nil {
		ex.atoms = map[int]bool{}
	}
	if t.Kind == smt.KApp && t.Op == "and" {
		for _, a := range t.Args {
			ex.recordAtoms(a)
		}
		return
	}
	ex.atoms[t.ID] = true
}

func (ex *Exec) factHolds(t *smt.Term) bool {
	if ex.atoms != nil && ex.atoms[t.ID] {
		return true
	}
	for _, f := range ex.localFacts {
		if f == t {
			return true
		}
		if f.Kind == smt.KApp && f.Op == "and" {
			for _, a := range f.Args {
				if a == t {
					return true
				}
			}
		}
	}
	return false
}

func (ex *Exec) knownPos(b *smt.Term) bool {
	c := ex.W.C
	if b.Sort != smt.Int {
		return false
	}
	if n, ok := b.IntVal(); ok {
		return n.Sign() > 0
	}
	zero, one := c.IntLit(0), c.IntLit(1)
	for _, t := range []*smt.Term{c.Gt(b, zero), c.Lt(zero, b), c.Ge(b, one), c.Le(one, b)} {
		if ex.factHolds(t) {
			return true
		}
	}
	if ex.factHolds(c.Not(c.Eq(b, zero))) && ex.knownNonneg(b) {
		return true
	}
	return false
}

// knownNonneg: structurally non-negative, or assumed so.
func (ex *Exec) knownNonneg(b *smt.Term) bool {
	c := ex.W.C
	if b.Sort != smt.Int {
		return false
	}
	if n, ok := b.IntVal(); ok {
		return n.Sign() >= 0
	}
	zero := c.IntLit(0)
	if ex.factHolds(c.Ge(b, zero)) || ex.factHolds(c.Le(zero, b)) {
		return true
	}
	if b.Kind == smt.KApp {
		switch b.Op {
		case "mod", "bv2nat":
			return true // SMT-LIB mod is never negative
		case "div":
			return len(b.Args) == 2 && ex.knownNonneg(b.Args[0]) && ex.knownPos(b.Args[1])
		case "+", "*":
			for _, a := range b.Args {
				if !ex.knownNonneg(a) {
					return false
				}
			}
			return true
		case "ite":
			return ex.knownNonneg(b.Args[1]) && ex.knownNonneg(b.Args[2])
		}
		if ex.unsignedUF[b.Op] {
			return true
		}
	}
	zero1 := c.IntLit(1)
	for _, t := range []*smt.Term{c.Gt(b, zero), c.Lt(zero, b), c.Ge(b, zero1), c.Le(zero1, b)} {
		if ex.factHolds(t) {
			return true
		}
	}
	return false
}

func (ex *Exec) note(m map[string]bool, s string) { m[s] = true }

func (ex *Exec) oblige(kind, anchor string, guard, goal *smt.Term, pos token.Pos, prefix string) {
	if ex.quiet > 0 {
		return
	}
	if (goal.IsTrue() || guard.IsFalse()) && panicKinds[kind] {
		// implicit panic sites that are trivially safe are not listed; contract-labelled obligations
		// (pre, inv-*, loop-assert, decreases, lemma, ...) always are, so that they are claimed and a
		// later change that makes them non-trivial is noticed
		return
	}
	base := fmt.Sprintf("%s#%s:%s%s", ex.fnName(), kind, prefix, anchor)
	n := ex.siteCtr[base]
	ex.siteCtr[base] = n + 1
	name := base
	if n > 0 {
		name = fmt.Sprintf("%s@%d", base, n+1)
	}
	var p token.Position
	if pos.IsValid() {
		p = ex.Prog.Fset.Position(pos)
	}
	o := &Obligation{Name: name, Kind: kind, Guard: guard, Goal: goal, NAssume: len(ex.assumes), Pos: p}
	if ex.tailMode {
		if _, seen := ex.tailParts[name]; !seen {
			ex.tailOrder = append(ex.tailOrder, name)
		}
		ex.tailParts[name] = append(ex.tailParts[name], o)
		return
	}
	ex.Obls = append(ex.Obls, o)
}

func (ex *Exec) fnName() string { return ex.Prog.FuncKey(ex.Fn) }

// ---------------------------------------------------------------- values

func (ex *Exec) fresh(name string, t types.Type) Val {
	if tup, ok := t.(*types.Tuple); ok {
		v := Val{T: t}
		for i := 0; i < tup.Len(); i++ {
			v.Tup = append(v.Tup, ex.fresh(fmt.Sprintf("%s_%d", name, i), tup.At(i).Type()))
		}
		return v
	}
	tm := ex.W.C.Fresh(name, ex.W.SortOf(t))
	ex.assume(ex.W.WF(t, tm, 0))
	return Val{T: t, Tm: tm}
}

func (ex *Exec) constVal(cst *ssa.Const) Val {
	c := ex.W.C
	t := cst.Type()
	if cst.Value == nil {
		return Val{T: t, Tm: ex.W.Zero(t)}
	}
	switch {
	case isBool(t):
		return Val{T: t, Tm: c.BoolLit(constant.BoolVal(cst.Value))}
	case isInteger(t):
		n, ok := constant.Val(constant.ToInt(cst.Value)).(*big.Int)
		if !ok {
			i64, _ := constant.Int64Val(constant.ToInt(cst.Value))
			n = big.NewInt(i64)
		}
		if bw, isBV := ex.W.BVWidth(t); isBV {
			return Val{T: t, Tm: c.BVLit(n.Uint64(), bw)}
		}
		return Val{T: t, Tm: c.BigLit(n)}
	case isFloat(t):
		r := new(big.Rat)
		switch v := constant.Val(constant.ToFloat(cst.Value)).(type) {
		case *big.Rat:
			r = v
		case *big.Float:
			r, _ = v.Rat(nil)
		case int64:
			r.SetInt64(v)
		case *big.Int:
			r.SetInt(v)
		}
		return Val{T: t, Tm: c.RealLit(r)}
	case isString(t):
		return Val{T: t, Tm: ex.W.StrLit(constant.StringVal(cst.Value))}
	}
	return ex.fresh("const", t)
}

func (ex *Exec) val(fr *Frame, v ssa.Value) Val {
	switch x := v.(type) {
	case *ssa.Const:
		return ex.constVal(x)
	case *ssa.Global:
		return Val{T: x.Type(), Addr: &Addr{Kind: aGlobal, Global: x, T: x.Type().(*types.Pointer).Elem()}}
	case *ssa.Function:
		return Val{T: x.Type(), Tm: ex.W.C.IntLit(int64(ex.Prog.FuncID(x)))}
	case *ssa.Builtin:
		return Val{T: x.Type(), Tm: ex.W.C.IntLit(0)}
	}
	if r, ok := fr.vals[v]; ok {
		return r
	}
	// value not yet computed (e.g. defined in an unreachable or later block): unconstrained
	r := ex.fresh("undef_"+v.Name(), v.Type())
	fr.vals[v] = r
	return r
}

// ptrTerm returns the Int reference of a pointer value.
func (ex *Exec) ptrTerm(v Val) *smt.Term {
	if v.Tm != nil {
		return v.Tm
	}
	a := v.Addr
	if (a.Kind == aStruct || a.Kind == aPtr) && len(a.Path) == 0 {
		return a.Root
	}
	// interior or local address escaping into a term: opaque non-nil reference
	ex.note(ex.Abstr, "interior-pointer-as-value")
	t := ex.W.C.Fresh("iptr", smt.Int)
	ex.assume(ex.W.C.Lt(ex.W.C.IntLit(0), t))
	return t
}

func (ex *Exec) toAddr(v Val) *Addr {
	if v.Addr != nil {
		return v.Addr
	}
	pt, ok := v.T.Underlying().(*types.Pointer)
	if !ok {
		panic(fmt.Sprintf("toAddr on non-pointer %s", v.T))
	}
	el := pt.Elem()
	if _, isStruct := el.Underlying().(*types.Struct); isStruct && ex.W.DT(ex.W.SortOf(el)) != nil {
		return &Addr{Kind: aStruct, Root: v.Tm, T: el}
	}
	return &Addr{Kind: aPtr, Root: v.Tm, T: el}
}

// nonNil is the condition that dereferencing v does not panic.
func (ex *Exec) nonNil(v Val) *smt.Term {
	c := ex.W.C
	if v.Addr != nil {
		a := v.Addr
		if a.Kind == aLocal || a.Kind == aGlobal || a.Kind == aElem {
			return c.True()
		}
		if len(a.Path) > 0 {
			return c.True() // nilness was checked when the interior address was formed
		}
		return c.Not(c.Eq(a.Root, c.IntLit(0)))
	}
	return c.Not(c.Eq(v.Tm, c.IntLit(0)))
}

func (ex *Exec) sliceParts(s *smt.Term) (arr, off, ln, cp *smt.Term) {
	c := ex.W.C
	dt := ex.W.SliceDT
	return c.Field(dt, 0, s), c.Field(dt, 1, s), c.Field(dt, 2, s), c.Field(dt, 3, s)
}

func (ex *Exec) mkSlice(arr, off, ln, cp *smt.Term) *smt.Term {
	return ex.W.C.Construct(ex.W.SliceDT, arr, off, ln, cp)
}

func (ex *Exec) strLen(s *smt.Term) *smt.Term {
	c := ex.W.C
	l := c.App("str_len", smt.Int, s)
	if !c.HasVar(l) {
		// every string has a length in [0, 2^56) (the address space)
		ex.assume(c.And(c.Le(c.IntLit(0), l), c.Lt(l, c.BigLit(pow2(56)))))
	}
	return l
}

// alloc returns a fresh non-nil reference.
func (ex *Exec) allocRef(st *State) *smt.Term {
	c := ex.W.C
	r := st.brk
	nb := c.Add(st.brk, c.IntLit(1))
	st.brk = nb
	return r
}

// ---------------------------------------------------------------- top level

func (ex *Exec) Run() {
	c := ex.W.C
	fn := ex.Fn
	st := &State{locals: map[*ssa.Alloc]*smt.Term{}, heap: map[string]*smt.Term{}}
	st.brk = c.Const("brk0", smt.Int)
	ex.assume(c.Lt(c.IntLit(0), st.brk))
	ex.params = map[string]Val{}
	var args []Val
	for _, p := range fn.Params {
		v := ex.fresh(p.Name(), p.Type())
		ex.boundPtr(v, st)
		args = append(args, v)
		ex.params[p.Name()] = v
		ex.paramOrd = append(ex.paramOrd, p.Name())
	}
	if fn.Signature.Recv() != nil && len(args) > 0 {
		if _, isPtr := args[0].T.Underlying().(*types.Pointer); isPtr {
			ex.assume(c.Not(c.Eq(args[0].Tm, c.IntLit(0))))
			ex.note(ex.Abstr, "assume: pointer receiver is non-nil")
		}
	}
	ex.entrySt = st.clone()
	fr := ex.newFrame(fn, "", ex.FC, ex.PC)
	fr.top = true
	ex.bindFreeVars(fr, st)
	// requires
	if ex.FC != nil {
		for _, cl := range ex.FC.Clauses {
			if cl.Kind != "requires" && cl.Kind != "assume" {
				continue
			}
			env := ex.envFor(fr, st, st, nil)
			for i, p := range fn.Params {
				env.vars[p.Name()] = args[i]
			}
			ex.assume(ex.evalBool(env, cl.E, cl))
			if cl.Kind == "assume" {
				// an `assume <expr> -- reason` clause is a fact about the environment taken on trust at entry (listed in the evidence)
				ex.note(ex.Abstr, "assumed-at-entry: "+cl.Text)
			}
		}
	}
	// entry lemmas: proved from the preconditions alone (a small query), then available to every later obligation
	if ex.FC != nil {
		for _, cl := range ex.FC.Clauses {
			if cl.Kind != "lemma" {
				continue
			}
			env := ex.envFor(fr, st, st, nil)
			for i, p := range fn.Params {
				env.vars[p.Name()] = args[i]
			}
			g := ex.evalBool(env, cl.E, cl)
			label := cl.Label
			if label == "" {
				label = "lemma"
			}
			ex.obligeAlways("lemma", label, c.True(), g, fn.Pos())
			ex.assume(g)
		}
	}
	// the entry state may have been touched lazily by requires evaluation: refresh snapshot
	ex.entrySt = st.clone()
	fr.entry = ex.entrySt
	rets, out, reach := ex.runFrame(fr, args, st, c.True())
	ex.flushExitAsserts()
	ex.flushLoopParts()
	ex.vocabObligations()
	if out == nil {
		return
	}
	// cover: exit reachable
	ex.Obls = append(ex.Obls, &Obligation{Name: ex.fnName() + "#cover:exit", Kind: "cover", Guard: reach, Goal: c.False(), NAssume: len(ex.assumes), ExpectSat: true})
	if ex.FC == nil {
		return
	}
	env := ex.envFor(fr, out, ex.entrySt, nil)
	for i, p := range fn.Params {
		env.vars[p.Name()] = args[i]
	}
	ex.bindResults(env, fn, rets)
	nlab := 0
	for _, cl := range ex.FC.Clauses {
		if cl.Kind != "ensures" {
			continue
		}
		label := cl.Label
		if label == "" {
			nlab++
			label = fmt.Sprintf("ensures%d", nlab)
		}
		if len(fr.rets) > 1 {
			// one sub-obligation per return site (smaller queries than the merged exit state)
			var parts []*Obligation
			for _, ri := range fr.rets {
				penv := ex.envFor(fr, ri.st, ex.entrySt, nil)
				for i, p := range fn.Params {
					penv.vars[p.Name()] = args[i]
				}
				ex.bindResults(penv, fn, ri.vals)
				g := ex.evalBool(penv, cl.E, cl)
				parts = append(parts, &Obligation{Kind: "post", Guard: ri.reach, Goal: g, NAssume: len(ex.assumes)})
			}
			ex.obligeAlways("post", label, reach, c.True(), fn.Pos())
			ex.Obls[len(ex.Obls)-1].Parts = parts
			for _, pt := range parts {
				pt.Name = ex.Obls[len(ex.Obls)-1].Name
				pt.Pos = ex.Obls[len(ex.Obls)-1].Pos
			}
			continue
		}
		goal := ex.evalBool(env, cl.E, cl)
		ex.obligeAlways("post", label, reach, goal, fn.Pos())
	}
	ex.frameObligations(fr, out, reach, env)
}

// obligeAlways records an obligation even if it simplified to true (so that
// labelled contract clauses are always counted).
func (ex *Exec) obligeAlways(kind, anchor string, guard, goal *smt.Term, pos token.Pos) {
	name := fmt.Sprintf("%s#%s:%s", ex.fnName(), kind, anchor)
	n := ex.siteCtr[name]
	ex.siteCtr[name] = n + 1
	if n > 0 {
		name = fmt.Sprintf("%s@%d", name, n+1)
	}
	var p token.Position
	if pos.IsValid() {
		p = ex.Prog.Fset.Position(pos)
	}
	ex.Obls = append(ex.Obls, &Obligation{Name: name, Kind: kind, Guard: guard, Goal: goal, NAssume: len(ex.assumes), Pos: p})
}

func (ex *Exec) bindResults(env *CEnv, fn *ssa.Function, rets []Val) {
	res := fn.Signature.Results()
	if env.boundNames == nil {
		env.boundNames = map[string]bool{}
	}
	if len(rets) == 1 {
		env.vars["result"] = rets[0]
		env.boundNames["result"] = true
	}
	for i, r := range rets {
		env.vars[fmt.Sprintf("result%d", i)] = r
		env.boundNames[fmt.Sprintf("result%d", i)] = true
		if i < res.Len() && res.At(i).Name() != "" && res.At(i).Name() != "_" {
			if _, clash := env.vars[res.At(i).Name()]; !clash {
				env.vars[res.At(i).Name()] = r
			}
		}
	}
}

// boundPtr assumes that every reference reachable in a fresh value lies below the allocation frontier.
func (ex *Exec) boundPtr(v Val, st *State) {
	c := ex.W.C
	if v.Tm == nil {
		return
	}
	switch v.T.Underlying().(type) {
	case *types.Pointer, *types.Map, *types.Chan:
		ex.assume(c.Lt(v.Tm, st.brk))
	case *types.Slice:
		arr, _, _, _ := ex.sliceParts(v.Tm)
		ex.assume(c.Lt(arr, st.brk))
	case *types.Struct:
		dt := ex.W.DT(ex.W.SortOf(v.T))
		if dt == nil {
			return
		}
		stt := v.T.Underlying().(*types.Struct)
		for i := 0; i < stt.NumFields(); i++ {
			switch stt.Field(i).Type().Underlying().(type) {
			case *types.Pointer, *types.Slice, *types.Map, *types.Chan:
				ex.boundPtr(Val{T: stt.Field(i).Type(), Tm: c.Field(dt, i, v.Tm)}, st)
			}
		}
	}
}

// loaded wraps a loaded term as a Val and adds its well-formedness facts.
func (ex *Exec) loaded(t types.Type, tm *smt.Term, st *State) Val {
	v := Val{T: t, Tm: tm}
	if tm.Kind != smt.KLit {
		ex.assume(ex.W.WF(t, tm, 0))
		ex.boundPtr(v, st)
	}
	return v
}

// ---------------------------------------------------------------- frames and CFG

type loopInfo struct {
	header  *ssa.BasicBlock
	blocks  map[*ssa.BasicBlock]bool
	ordinal int
	invs    []*Clause
	asserts []*Clause
	decr    []*Clause
	varPre  []*smt.Term // values of decreases expressions at loop head
	headSt  *State      // state at the loop head (after havoc), for head(...) in loop assertions
	keepOld bool        // `loop N preserves old`: memory that existed when the loop was entered is written only through the tracked bases
	kept    []keptHeap  // per wholly havocked component: its value and the allocation frontier at loop entry
}

type keptHeap struct {
	key *HeapKey
	pre *smt.Term
	brk *smt.Term
}

func (ex *Exec) newFrame(fn *ssa.Function, prefix string, fc *FuncContract, pc *PkgContracts) *Frame {
	fr := &Frame{fn: fn, vals: map[ssa.Value]Val{}, prefix: prefix, fc: fc, pc: pc,
		outSt: map[*ssa.BasicBlock]*State{}, edgeCond: map[[2]int]*smt.Term{}, inReach: map[*ssa.BasicBlock]*smt.Term{}}
	fr.loops = findLoops(fn)
	if fc != nil {
		for _, cl := range fc.Clauses {
			if cl.Kind == "cut" {
				in := ex.findAnchor(fn, cl.Anchor, cl.Site, cl.After)
				if in == nil {
					ex.contractError(cl, fmt.Sprintf("cut: no statement of %s contains %q", fn.Name(), cl.Anchor))
				}
				if fr.cuts == nil {
					fr.cuts = map[ssa.Instruction][]*Clause{}
				}
				fr.cuts[in] = append(fr.cuts[in], cl)
			}
		}
	}
	if fc != nil {
		for _, cl := range fc.Clauses {
			if cl.Loop != 0 {
				found := cl.Loop == -1
				for _, li := range fr.loops {
					if li.ordinal == cl.Loop || cl.Loop == -1 {
						found = true
						switch cl.Kind {
						case "invariant":
							li.invs = append(li.invs, cl)
						case "decreases":
							li.decr = append(li.decr, cl)
						case "assert":
							li.asserts = append(li.asserts, cl)
						case "preserves":
							li.keepOld = true
						}
					}
				}
				if !found {
					ex.contractError(cl, fmt.Sprintf("loop %d not found in %s", cl.Loop, fn.Name()))
				}
			}
		}
	}
	return fr
}

// findAnchor: the first instruction (in block order) of the nth (from 1; 0 means first) source line of the function
// that contains text.
func (ex *Exec) findAnchor(fn *ssa.Function, text string, nth int, after string) ssa.Instruction {
	firstOf := map[int]ssa.Instruction{}
	var lines []int
	for _, b := range fn.Blocks {
		for _, in := range b.Instrs {
			switch in.(type) {
			case *ssa.Phi, *ssa.DebugRef:
				continue
			}
			if !in.Pos().IsValid() {
				continue
			}
			p := ex.Prog.Fset.Position(in.Pos())
			if !strings.Contains(ex.Prog.sourceLine(p.Filename, p.Line), text) {
				continue
			}
			if _, seen := firstOf[p.Line]; !seen {
				firstOf[p.Line] = in
				lines = append(lines, p.Line)
			}
		}
	}
	sort.Ints(lines)
	if after != "" {
		// only the lines after the first line (of the function) that contains `after`
		first := -1
		for _, b := range fn.Blocks {
			for _, in := range b.Instrs {
				if !in.Pos().IsValid() {
					continue
				}
				p := ex.Prog.Fset.Position(in.Pos())
				if strings.Contains(ex.Prog.sourceLine(p.Filename, p.Line), after) && (first < 0 || p.Line < first) {
					first = p.Line
				}
			}
		}
		if first < 0 {
			return nil
		}
		var ls []int
		for _, l := range lines {
			if l > first {
				ls = append(ls, l)
			}
		}
		lines = ls
	}
	if nth < 1 {
		nth = 1
	}
	if nth > len(lines) {
		return nil
	}
	return firstOf[lines[nth-1]]
}

type ContractError struct{ Msg string }

func (ex *Exec) contractError(cl *Clause, msg string) {
	where := ""
	if cl != nil && ex.FC != nil {
		where = fmt.Sprintf("%s:%d: ", ex.FC.File, cl.Line)
	}
	panic(&ContractError{where + msg})
}

// findLoops identifies natural loops; ordinals follow source order of the loop headers.
func findLoops(fn *ssa.Function) map[*ssa.BasicBlock]*loopInfo {
	loops := map[*ssa.BasicBlock]*loopInfo{}
	for _, b := range fn.Blocks {
		for _, s := range b.Succs {
			if s.Dominates(b) { // back edge b -> s
				li := loops[s]
				if li == nil {
					li = &loopInfo{header: s, blocks: map[*ssa.BasicBlock]bool{s: true}}
					loops[s] = li
				}
				// collect natural loop body
				stack := []*ssa.BasicBlock{b}
				for len(stack) > 0 {
					x := stack[len(stack)-1]
					stack = stack[:len(stack)-1]
					if li.blocks[x] {
						continue
					}
					li.blocks[x] = true
					stack = append(stack, x.Preds...)
				}
			}
		}
	}
	var hs []*ssa.BasicBlock
	for h := range loops {
		hs = append(hs, h)
	}
	// go/ssa creates the blocks of a loop statement when it reaches the statement, so the header's block index
	// follows the source order of the loop statements (outer before inner); instruction positions do not (a
	// range loop's header instructions carry positions of the range expression or of phi variables)
	sort.Slice(hs, func(i, j int) bool { return hs[i].Index < hs[j].Index })
	if os.Getenv("GOVC_DEBUG_LOOPS") != "" && len(hs) > 1 {
		for i := 1; i < len(hs); i++ {
			if hs[i-1].Index > hs[i].Index {
				fmt.Fprintf(os.Stderr, "LOOP-ORDER %s: position order %v differs from block order\n", fn.String(), func() []int {
					var o []int
					for _, h := range hs {
						o = append(o, h.Index)
					}
					return o
				}())
				break
			}
		}
	}
	for i, h := range hs {
		loops[h].ordinal = i + 1
	}
	return loops
}

func loopPos(h *ssa.BasicBlock) token.Pos {
	// position of the first instruction with a valid position in the loop header or body
	best := token.NoPos
	for _, in := range h.Instrs {
		if _, isPhi := in.(*ssa.Phi); isPhi {
			continue // a phi carries the position of its variable's declaration, not of the loop
		}
		if _, isDbg := in.(*ssa.DebugRef); isDbg {
			continue
		}
		if p := in.Pos(); p.IsValid() && (best == token.NoPos || p < best) {
			best = p
		}
	}
	if best == token.NoPos {
		for _, s := range h.Succs {
			for _, in := range s.Instrs {
				if p := in.Pos(); p.IsValid() && (best == token.NoPos || p < best) {
					best = p
				}
			}
		}
	}
	return best
}

func rpo(fn *ssa.Function) []*ssa.BasicBlock {
	var order []*ssa.BasicBlock
	seen := map[*ssa.BasicBlock]bool{}
	var dfs func(b *ssa.BasicBlock)
	dfs = func(b *ssa.BasicBlock) {
		seen[b] = true
		for _, s := range b.Succs {
			if !seen[s] && !s.Dominates(b) {
				dfs(s)
			}
		}
		order = append(order, b)
	}
	if len(fn.Blocks) > 0 {
		dfs(fn.Blocks[0])
	}
	for i, j := 0, len(order)-1; i < j; i, j = i+1, j-1 {
		order[i], order[j] = order[j], order[i]
	}
	return order
}

type retInfo struct {
	reach *smt.Term
	vals  []Val
	st    *State
}

// bindFreeVars gives the captured variables of a function literal their values: those passed by the inlining
// caller, or fresh non-nil distinct cells when the literal is verified on its own.
func (ex *Exec) bindFreeVars(fr *Frame, st0 *State) {
	c := ex.W.C
	fn := fr.fn
	for i, fv := range fn.FreeVars {
		if _, done := fr.vals[fv]; done {
			continue
		}
		if i < len(fr.free) {
			fr.vals[fv] = fr.free[i]
		} else {
			fr.vals[fv] = ex.fresh("freevar_"+fv.Name(), fv.Type())
			if _, isPtr := fv.Type().Underlying().(*types.Pointer); isPtr && fr.vals[fv].Tm != nil {
				// a captured variable lives in a cell allocated by the enclosing function: never nil
				ex.assume(c.Not(c.Eq(fr.vals[fv].Tm, c.IntLit(0))))
				ex.boundPtr(fr.vals[fv], st0)
				for j := 0; j < i; j++ {
					if o := fr.vals[fn.FreeVars[j]]; o.Tm != nil && o.Tm.Sort == fr.vals[fv].Tm.Sort {
						ex.assume(c.Not(c.Eq(o.Tm, fr.vals[fv].Tm)))
					}
				}
			}
		}
	}
}

// runFrame symbolically executes fn from state st under condition reach.
// It returns the merged results, the merged exit state and the exit condition.
func (ex *Exec) runFrame(fr *Frame, args []Val, st0 *State, reach0 *smt.Term) ([]Val, *State, *smt.Term) {
	c := ex.W.C
	fn := fr.fn
	if len(fn.Blocks) == 0 {
		return nil, nil, c.False()
	}
	for i, p := range fn.Params {
		fr.vals[p] = args[i]
	}
	ex.bindFreeVars(fr, st0)
	var rets []retInfo
	order := rpo(fn)
	type incoming struct {
		conds []*smt.Term
		sts   []*State
		preds []*ssa.BasicBlock
	}
	forward := func(b *ssa.BasicBlock) incoming {
		var in incoming
		for _, p := range b.Preds {
			if b.Dominates(p) {
				continue // back edge
			}
			ec, ok := fr.edgeCond[[2]int{p.Index, b.Index}]
			if !ok || ec.IsFalse() {
				continue
			}
			in.conds = append(in.conds, ec)
			in.sts = append(in.sts, fr.outSt[p])
			in.preds = append(in.preds, p)
		}
		return in
	}
	// process executes one block; `in` is what flows into it (nil for the entry block)
	process := func(b *ssa.BasicBlock, in *incoming) {
		fr.curBlock = b
		var st *State
		var reach *smt.Term
		if b.Index == 0 {
			st, reach = st0, reach0
		} else {
			conds, sts, preds := in.conds, in.sts, in.preds
			if len(conds) == 0 {
				fr.inReach[b] = c.False()
				return
			}
			reach = c.Or(conds...)
			st = ex.mergeStates(conds, sts)
			// phis
			phiVals := map[*ssa.Phi]Val{}
			for _, in := range b.Instrs {
				phi, ok := in.(*ssa.Phi)
				if !ok {
					break
				}
				phiVals[phi] = ex.mergePhi(fr, phi, b, preds, conds)
			}
			if li := fr.loops[b]; li != nil {
				reach = ex.enterLoop(fr, li, b, st, reach, phiVals)
			} else {
				for phi, v := range phiVals {
					fr.vals[phi] = v
				}
			}
		}
		fr.inReach[b] = reach
		cur := reach
		for _, in := range b.Instrs {
			if _, ok := in.(*ssa.Phi); ok {
				continue
			}
			if fr.top && fr.cuts != nil {
				for _, cl := range fr.cuts[in] {
					env := ex.envFor(fr, st, fr.entryState(ex), nil)
					env.atBlock = b
					env.atInstr = in
					goal := ex.evalBool(env, cl.E, cl)
					label := cl.Label
					if label == "" {
						label = "cut"
					}
					if cl.Forget == "assume" {
						ex.assume(c.Implies(cur, goal))
						continue
					}
					ex.oblige("cut", label, cur, goal, in.Pos(), fr.prefix)
					if cl.Forget == "pen" {
						ex.havocKey(st, ex.penKey())
						env = ex.envFor(fr, st, fr.entryState(ex), nil)
						env.atBlock, env.atInstr = b, in
						goal = ex.evalBool(env, cl.E, cl)
						// from here on the path condition is a fresh Boolean tied to the history by one hypothesis (the link);
						// queries are first tried without the links ("local"): what the cut states is then all that is known
						// of the path before it
						ck := c.Fresh("cut", smt.Bool)
						if ex.histLinks == nil {
							ex.histLinks = map[int]bool{}
						}
						n0 := len(ex.assumes)
						ex.assume(c.Implies(ck, cur))
						if len(ex.assumes) == n0+1 {
							ex.histLinks[n0] = true
						}
						ex.noteLink(ck)
						cur = ck
					}
					ex.assume(c.Implies(cur, goal))
				}
			}
			switch x := in.(type) {
			case *ssa.If:
				cond := ex.val(fr, x.Cond).Tm
				ex.setEdge(fr, b, b.Succs[0], c.And(cur, cond), st)
				ex.setEdge(fr, b, b.Succs[1], c.And(cur, c.Not(cond)), st)
			case *ssa.Jump:
				ex.setEdge(fr, b, b.Succs[0], cur, st)
			case *ssa.Return:
				var vs []Val
				for _, r := range x.Results {
					vs = append(vs, ex.val(fr, r))
				}
				rets = append(rets, retInfo{cur, vs, st})
				if fr.top && fr.fc != nil {
					ex.exitAsserts(fr, b, st, cur, x)
				}
			case *ssa.Panic:
				if !ex.panicAllowed(fr, st, cur) {
					ex.oblige("panic", "explicit:"+ex.anchor(fr, x, x.Pos()), cur, c.False(), x.Pos(), fr.prefix)
				}
			default:
				cur = ex.step(fr, in, st, cur)
			}
		}
		fr.outSt[b] = st
	}
	done := map[*ssa.BasicBlock]bool{}
	for _, b := range order {
		if done[b] {
			continue
		}
		if b.Index == 0 {
			process(b, nil)
			continue
		}
		in := forward(b)
		if tail := ex.dupTail(fr, b, len(in.conds), order); tail != nil {
			// a join of many paths followed by a short loop-free run to the returns (the end of a large switch):
			// that run is executed once per incoming path instead of once on the merged state, so that each
			// path keeps its own simple values; same-named obligations of the copies become parts of one
			ex.beginTail()
			for i := range in.conds {
				ex.nextTailCopy()
				for _, t := range tail {
					delete(fr.outSt, t)
					delete(fr.inReach, t)
					for _, s := range t.Succs {
						delete(fr.edgeCond, [2]int{t.Index, s.Index})
					}
				}
				for _, t := range tail {
					if t == b {
						one := incoming{conds: in.conds[i : i+1], sts: in.sts[i : i+1], preds: in.preds[i : i+1]}
						process(t, &one)
					} else {
						tin := forward(t)
						process(t, &tin)
					}
				}
			}
			ex.endTail()
			for _, t := range tail {
				done[t] = true
			}
			continue
		}
		process(b, &in)
	}
	fr.rets = rets
	if len(rets) == 0 {
		return nil, nil, c.False()
	}
	var conds []*smt.Term
	var sts []*State
	for _, r := range rets {
		conds = append(conds, r.reach)
		sts = append(sts, r.st)
	}
	out := ex.mergeStates(conds, sts)
	n := len(rets[0].vals)
	merged := make([]Val, n)
	for i := 0; i < n; i++ {
		var acc Val
		for k := len(rets) - 1; k >= 0; k-- {
			if k == len(rets)-1 {
				acc = rets[k].vals[i]
			} else {
				acc = ex.iteVal(conds[k], rets[k].vals[i], acc)
			}
		}
		merged[i] = acc
	}
	return merged, out, c.Or(conds...)
}

// dupTail decides whether the blocks reachable from join b are executed once per incoming path: at least four
// incoming paths, every reachable block dominated by b and outside all loops, at most 40 instructions in all and
// none of them a call, conversion or allocation.
// It returns those blocks in execution order.
func (ex *Exec) dupTail(fr *Frame, b *ssa.BasicBlock, npreds int, order []*ssa.BasicBlock) []*ssa.BasicBlock {
	if !fr.top || npreds < 4 || fr.loops[b] != nil || ex.tailMode {
		return nil
	}
	in := map[*ssa.BasicBlock]bool{}
	var walk func(t *ssa.BasicBlock) bool
	n := 0
	walk = func(t *ssa.BasicBlock) bool {
		if in[t] {
			return true
		}
		if !b.Dominates(t) || fr.loops[t] != nil {
			return false
		}
		for _, li := range fr.loops {
			if li.blocks[t] {
				return false
			}
		}
		in[t] = true
		for _, x := range t.Instrs {
			if _, dbg := x.(*ssa.DebugRef); !dbg {
				n++
			}
		}
		if n > 40 {
			return false
		}
		for _, x := range t.Instrs {
			switch x.(type) {
			case ssa.CallInstruction, *ssa.Convert, *ssa.MakeSlice, *ssa.Alloc, *ssa.MakeInterface, *ssa.MakeClosure, *ssa.MakeMap, *ssa.Slice, *ssa.TypeAssert:
				// (each copy would add its own facts about fresh values to every later query)
				if cl, isCall := x.(*ssa.Call); isCall {
					if bi, ok := cl.Call.Value.(*ssa.Builtin); ok && (bi.Name() == "len" || bi.Name() == "cap") {
						continue
					}
				}
				return false
			}
		}
		for _, s := range t.Succs {
			if !walk(s) {
				return false
			}
		}
		return true
	}
	if !walk(b) {
		return nil
	}
	var out []*ssa.BasicBlock
	for _, t := range order {
		if in[t] {
			out = append(out, t)
		}
	}
	return out
}

func (ex *Exec) beginTail() {
	ex.tailMode = true
	ex.tailCtr = map[string]int{}
	for k, v := range ex.siteCtr {
		ex.tailCtr[k] = v
	}
	ex.tailParts = map[string][]*Obligation{}
	ex.tailOrder = nil
	ex.noCover++
}

func (ex *Exec) nextTailCopy() {
	ex.siteCtr = map[string]int{}
	for k, v := range ex.tailCtr {
		ex.siteCtr[k] = v
	}
}

func (ex *Exec) endTail() {
	ex.tailMode = false
	ex.noCover--
	for _, name := range ex.tailOrder {
		parts := ex.tailParts[name]
		if len(parts) == 1 {
			ex.Obls = append(ex.Obls, parts[0])
			continue
		}
		ex.Obls = append(ex.Obls, &Obligation{Name: name, Kind: parts[0].Kind, Guard: ex.W.C.True(), Goal: ex.W.C.True(), NAssume: parts[len(parts)-1].NAssume, Pos: parts[0].Pos, Parts: parts})
	}
	ex.tailParts, ex.tailOrder = nil, nil
}

// exitAsserts checks "exit assert" clauses (over locals) at one return site.
func (ex *Exec) exitAsserts(fr *Frame, b *ssa.BasicBlock, st *State, cur *smt.Term, ret *ssa.Return) {
	n := 0
	for _, cl := range fr.fc.Clauses {
		if cl.Kind != "exit" {
			continue
		}
		n++
		if cl.Site != 0 && cl.Site != ex.returnOrdinal(fr.fn, ret) {
			continue
		}
		env := ex.envFor(fr, st, fr.entryState(ex), nil)
		env.atBlock = b
		env.atEnd = true
		var rv []Val
		for _, r := range ret.Results {
			rv = append(rv, ex.val(fr, r))
		}
		ex.bindResults(env, fr.fn, rv)
		label := cl.Label
		if label == "" {
			label = fmt.Sprintf("exit%d", n)
		}
		if ex.exitParts == nil {
			ex.exitParts = map[string][]*Obligation{}
		}
		if _, seen := ex.exitParts[label]; !seen {
			ex.exitOrder = append(ex.exitOrder, label)
		}
		goal := ex.evalBool(env, cl.E, cl)
		ex.exitParts[label] = append(ex.exitParts[label], &Obligation{Kind: "exit", Guard: cur, Goal: goal, NAssume: len(ex.assumes), Pos: ex.Prog.Fset.Position(ret.Pos())})
		if cl.Lemma {
			ex.assume(ex.W.C.Implies(cur, goal))
		}
	}
}

// returnOrdinal numbers the return statements of fn in source order, from 1.
func (ex *Exec) returnOrdinal(fn *ssa.Function, ret *ssa.Return) int {
	var rs []*ssa.Return
	for _, b := range fn.Blocks {
		for _, in := range b.Instrs {
			if r, ok := in.(*ssa.Return); ok {
				rs = append(rs, r)
			}
		}
	}
	sort.SliceStable(rs, func(i, j int) bool {
		// (the implicit return at the end of a body has no position: it sorts last)
		if rs[i].Pos().IsValid() != rs[j].Pos().IsValid() {
			return rs[i].Pos().IsValid()
		}
		pi, pj := ex.Prog.Fset.Position(rs[i].Pos()), ex.Prog.Fset.Position(rs[j].Pos())
		if pi.Line != pj.Line {
			return pi.Line < pj.Line
		}
		return pi.Column < pj.Column
	})
	for i, r := range rs {
		if r == ret {
			return i + 1
		}
	}
	return 0
}

// obligePart records one part (one back edge) of a loop obligation; parts with the same name are merged
// into a single obligation when the function has been executed, so names do not depend on the number of
// back edges (continue statements).
func (ex *Exec) obligePart(kind, anchor string, guard, goal *smt.Term, pos token.Pos, prefix string) {
	if ex.quiet > 0 {
		return
	}
	name := fmt.Sprintf("%s#%s:%s%s", ex.fnName(), kind, prefix, anchor)
	if ex.loopParts == nil {
		ex.loopParts = map[string][]*Obligation{}
	}
	if _, seen := ex.loopParts[name]; !seen {
		ex.loopOrder = append(ex.loopOrder, name)
	}
	var p token.Position
	if pos.IsValid() {
		p = ex.Prog.Fset.Position(pos)
	}
	ex.loopParts[name] = append(ex.loopParts[name], &Obligation{Name: name, Kind: kind, Guard: guard, Goal: goal, NAssume: len(ex.assumes), Pos: p})
}

// splitByGuard: when the path condition is a disjunction of mutually exclusive edge conditions (a join of
// many branches), the goal is checked once per disjunct with the ite-merged values specialised to that
// branch (the disjunct set to true, its siblings to false). Equivalent to the unsplit obligation.
func (ex *Exec) splitByGuard(guard, goal *smt.Term) [][2]*smt.Term {
	c := ex.W.C
	if guard.Kind != smt.KApp || guard.Op != "or" || len(guard.Args) < 4 || len(guard.Args) > 200 {
		return [][2]*smt.Term{{guard, goal}}
	}
	var out [][2]*smt.Term
	for i, d := range guard.Args {
		m := map[*smt.Term]*smt.Term{}
		for j, o := range guard.Args {
			if j == i {
				m[o] = c.True()
			} else {
				m[o] = c.False()
			}
		}
		out = append(out, [2]*smt.Term{d, c.Subst(goal, m)})
	}
	return out
}

// splitByIte: the goal mentions a value merged from many paths (a chain ite(c1, A, ite(c2, B, ...)) of four or more
// links, as produced at the join after a large switch). It is then proved once under each ci and once under
// "none of them" -- an exhaustive case split, sound whether or not the ci exclude each other.
func (ex *Exec) splitByIte(guard, goal *smt.Term) [][2]*smt.Term {
	c := ex.W.C
	var best []*smt.Term
	seen := map[int]bool{}
	var walk func(t *smt.Term)
	walk = func(t *smt.Term) {
		if seen[t.ID] {
			return
		}
		seen[t.ID] = true
		if t.Kind == smt.KApp && t.Op == "ite" && len(t.Args) == 3 {
			var conds []*smt.Term
			for u := t; u.Kind == smt.KApp && u.Op == "ite" && len(u.Args) == 3; u = u.Args[2] {
				if c.HasVar(u.Args[0]) {
					break
				}
				conds = append(conds, u.Args[0])
			}
			if len(conds) > len(best) {
				best = conds
			}
		}
		for _, a := range t.Args {
			walk(a)
		}
	}
	walk(goal)
	if len(best) < 4 || len(best) > 64 {
		return nil
	}
	var out [][2]*smt.Term
	none := map[*smt.Term]*smt.Term{}
	var negs []*smt.Term
	for _, ci := range best {
		out = append(out, [2]*smt.Term{c.And(guard, ci), c.Subst(goal, map[*smt.Term]*smt.Term{ci: c.True()})})
		none[ci] = c.False()
		negs = append(negs, c.Not(ci))
	}
	out = append(out, [2]*smt.Term{c.And(append([]*smt.Term{guard}, negs...)...), c.Subst(goal, none)})
	return out
}

func (ex *Exec) flushLoopParts() {
	for _, name := range ex.loopOrder {
		parts := ex.loopParts[name]
		if len(parts) == 1 {
			ex.Obls = append(ex.Obls, parts[0])
			continue
		}
		ex.Obls = append(ex.Obls, &Obligation{Name: name, Kind: parts[0].Kind, Guard: ex.W.C.True(), Goal: ex.W.C.True(), NAssume: parts[len(parts)-1].NAssume, Pos: parts[0].Pos, Parts: parts})
	}
}

// flushExitAsserts turns the per-return-site parts of each exit assertion into one stably named obligation.
func (ex *Exec) flushExitAsserts() {
	for _, label := range ex.exitOrder {
		parts := ex.exitParts[label]
		ex.obligeAlways("exit", label, ex.W.C.True(), ex.W.C.True(), ex.Fn.Pos())
		o := ex.Obls[len(ex.Obls)-1]
		if len(parts) == 1 {
			o.Guard, o.Goal, o.NAssume, o.Pos = parts[0].Guard, parts[0].Goal, parts[0].NAssume, parts[0].Pos
			continue
		}
		for _, pt := range parts {
			pt.Name = o.Name
		}
		o.Parts = parts
	}
}

func (ex *Exec) panicAllowed(fr *Frame, st *State, cur *smt.Term) bool {
	if fr.fc == nil || !fr.top {
		return false
	}
	c := ex.W.C
	ok := false
	var conds []*smt.Term
	for _, cl := range fr.fc.Clauses {
		if cl.Kind == "panics" {
			ok = true
			env := ex.envFor(fr, ex.entrySt, ex.entrySt, nil)
			conds = append(conds, ex.evalBool(env, cl.E, cl))
		}
	}
	if !ok {
		return false
	}
	// obligation: reaching the panic implies one of the declared conditions
	ex.oblige("panic", "declared", cur, c.Or(conds...), fr.fn.Pos(), fr.prefix)
	return true
}

func (ex *Exec) setEdge(fr *Frame, from, to *ssa.BasicBlock, cond *smt.Term, st *State) {
	if to.Dominates(from) {
		// back edge: check invariants of the loop headed by `to`
		if li := fr.loops[to]; li != nil {
			ex.backEdge(fr, li, from, to, cond, st)
		}
		return
	}
	key := [2]int{from.Index, to.Index}
	if old, ok := fr.edgeCond[key]; ok {
		cond = ex.W.C.Or(old, cond)
	}
	fr.edgeCond[key] = cond
}

func (ex *Exec) iteVal(cond *smt.Term, a, b Val) Val {
	c := ex.W.C
	if len(a.Tup) > 0 {
		out := Val{T: a.T}
		for i := range a.Tup {
			out.Tup = append(out.Tup, ex.iteVal(cond, a.Tup[i], b.Tup[i]))
		}
		return out
	}
	if a.Addr != nil || b.Addr != nil {
		if a.Addr != nil && b.Addr != nil && sameAddr(a.Addr, b.Addr) {
			return a
		}
		if _, isPtr := a.T.Underlying().(*types.Pointer); isPtr {
			return Val{T: a.T, Tm: c.Ite(cond, ex.ptrTermStrict(a), ex.ptrTermStrict(b))}
		}
	}
	if a.Tm == nil || b.Tm == nil {
		panic("iteVal: missing term")
	}
	return Val{T: a.T, Tm: c.Ite(cond, a.Tm, b.Tm)}
}

// ptrTermStrict is ptrTerm, but records unsoundness when a local/interior address must be merged.
func (ex *Exec) ptrTermStrict(v Val) *smt.Term {
	if v.Tm == nil && v.Addr != nil && !((v.Addr.Kind == aStruct || v.Addr.Kind == aPtr) && len(v.Addr.Path) == 0) {
		ex.note(ex.Unsound, "pointer-merge-of-interior-address")
	}
	return ex.ptrTerm(v)
}

func sameAddr(a, b *Addr) bool {
	if a.Kind != b.Kind || a.Alloc != b.Alloc || a.Global != b.Global || a.Root != b.Root || len(a.Path) != len(b.Path) {
		return false
	}
	for i := range a.Path {
		if a.Path[i].Field != b.Path[i].Field || a.Path[i].Idx != b.Path[i].Idx {
			return false
		}
	}
	return true
}

func (ex *Exec) mergePhi(fr *Frame, phi *ssa.Phi, b *ssa.BasicBlock, preds []*ssa.BasicBlock, conds []*smt.Term) Val {
	var acc Val
	first := true
	for k := len(preds) - 1; k >= 0; k-- {
		idx := -1
		for i, p := range b.Preds {
			if p == preds[k] {
				idx = i
			}
		}
		v := ex.val(fr, phi.Edges[idx])
		if first {
			acc = v
			first = false
		} else {
			acc = ex.iteVal(conds[k], v, acc)
		}
	}
	return acc
}

// ---------------------------------------------------------------- loops

func (ex *Exec) loopEnv(fr *Frame, li *loopInfo, st *State, phiVals map[*ssa.Phi]Val) *CEnv {
	ov := map[ssa.Value]Val{}
	for phi, v := range phiVals {
		ov[phi] = v
	}
	env := ex.envFor(fr, st, fr.entryState(ex), ov)
	env.atBlock = li.header
	return env
}

func (fr *Frame) entryState(ex *Exec) *State {
	if fr.entry != nil {
		return fr.entry
	}
	return ex.entrySt
}

func (ex *Exec) enterLoop(fr *Frame, li *loopInfo, h *ssa.BasicBlock, st *State, reach *smt.Term, phiVals map[*ssa.Phi]Val) *smt.Term {
	c := ex.W.C
	li.kept = nil
	// 1. invariants hold on entry
	env := ex.loopEnv(fr, li, st, phiVals)
	for i, cl := range li.invs {
		goal := ex.evalBool(env, cl.E, cl)
		ex.oblige("inv-entry", ex.invLabel(li, cl, i), reach, goal, h.Instrs[0].Pos(), fr.prefix)
	}
	auto := ex.autoInvariants(fr, li, h)
	// 2. havoc
	mods := ex.loopModset(fr, li)
	if mods.all {
		ex.havocAll(st)
	} else {
		for _, k := range mods.sortedKeys() {
			hk := ex.Prog.KeyInfo(ex, k)
			if hk == nil {
				continue
			}
			if base, ok := mods.refOnly[k]; ok && len(base) > 0 {
				// stores only through loop-invariant base pointers: havoc just those objects
				h0 := ex.heapGet(st, hk)
				cur := h0
				okAll := true
				base = append([]ssa.Value{}, base...)
				sort.Slice(base, func(i, j int) bool {
					return ex.valKey(base[i]) < ex.valKey(base[j])
				})
				for _, bv := range base {
					bval, have := fr.vals[bv]
					if !have {
						if _, isLoad := mods.refLoads[bv]; isLoad {
							// the field is not stored to in the loop: its value at the head is its value throughout
							u := bv.(*ssa.UnOp)
							fa := u.X.(*ssa.FieldAddr)
							ex.quiet++
							tmp := st.clone()
							ex.step(fr, fa, tmp, c.True())
							ex.step(fr, u, tmp, c.True())
							ex.quiet--
							bval = fr.vals[u]
							delete(fr.vals, u)
							delete(fr.vals, fa)
							have = bval.Tm != nil
						}
					}
					if !have {
						if _, isParam := bv.(*ssa.Parameter); !isParam {
							okAll = false
							break
						}
						bval = ex.val(fr, bv)
					}
					var ref *smt.Term
					if strings.HasPrefix(k, "E:") {
						arr, _, _, _ := ex.sliceParts(bval.Tm)
						ref = arr
					} else {
						ref = ex.ptrTerm(bval)
					}
					cur = c.Store(cur, ref, c.Fresh("hv_"+k, hk.Sort.ArrayElem()))
				}
				if okAll {
					st.heap[k] = cur
					continue
				}
			}
			if li.keepOld && hk.Sort.IsArray() && (k[0] == 'E' || k[0] == 'P' || k[0] == 'F') {
				// declared: only objects allocated inside the loop are written in this component; assumed at the
				// head, re-proved at every back edge
				// (old = existing when the function was entered: objects the function itself allocated before the
				// loop, such as a slice it is appending to, are the business of the loop's invariants)
				pre := ex.heapGet(st, hk)
				ex.havocKey(st, hk)
				lim := ex.entrySt.brk
				p := c.Var("p!k", smt.Int)
				ex.assume(c.Quant("forall", []*smt.Term{p}, c.Implies(c.And(c.Le(c.IntLit(0), p), c.Lt(p, lim)), c.Eq(c.Select(st.heap[k], p), c.Select(pre, p)))))
				li.kept = append(li.kept, keptHeap{key: hk, pre: pre, brk: lim})
				continue
			}
			ex.havocKey(st, hk)
		}
		var localList []*ssa.Alloc
		for a := range mods.locals {
			localList = append(localList, a)
		}
		sort.Slice(localList, func(i, j int) bool {
			return ex.valKey(localList[i]) < ex.valKey(localList[j])
		})
		if os.Getenv("GOVC_DEBUG_LOCALS") != "" {
			for _, a := range localList {
				fmt.Fprintf(os.Stderr, "loop %d local %s %s pos=%d\n", li.ordinal, a.Name(), a.Comment, a.Pos())
			}
		}
		for _, a := range localList {
			st.locals[a] = c.Fresh("loc_"+a.Comment, ex.W.SortOf(a.Type().(*types.Pointer).Elem()))
			ex.assume(ex.W.WF(a.Type().(*types.Pointer).Elem(), st.locals[a], 0))
		}
		if mods.allocates {
			nb := c.Fresh("brk", smt.Int)
			ex.assume(c.Le(st.brk, nb))
			st.brk = nb
		}
	}
	fresh := map[*ssa.Phi]Val{}
	var phiList []*ssa.Phi
	for _, in := range h.Instrs {
		if phi, ok := in.(*ssa.Phi); ok {
			if _, have := phiVals[phi]; have {
				phiList = append(phiList, phi)
			}
		} else {
			break
		}
	}
	for _, phi := range phiList {
		name := phi.Comment
		if name == "" {
			name = phi.Name()
		}
		v := ex.fresh(name, phi.Type())
		ex.boundPtr(v, st)
		fresh[phi] = v
		fr.vals[phi] = v
	}
	// 3. assume invariants in the havocked state. The path condition of the body is a fresh Boolean tied to the path
	// into the loop by one hypothesis (a history link, as at a forgetting cut): the invariants are meant to carry all
	// the body needs, and queries are first tried without the link
	if !reach.IsTrue() && !reach.IsFalse() {
		rk := c.Fresh(fmt.Sprintf("loop%d", li.ordinal), smt.Bool)
		if ex.histLinks == nil {
			ex.histLinks = map[int]bool{}
		}
		n0 := len(ex.assumes)
		ex.assume(c.Implies(rk, reach))
		if len(ex.assumes) == n0+1 {
			ex.histLinks[n0] = true
		}
		ex.noteLink(rk)
		reach = rk
	}
	env2 := ex.loopEnv(fr, li, st, fresh)
	for _, cl := range li.invs {
		ex.assume(c.Implies(reach, ex.evalBool(env2, cl.E, cl)))
	}
	for _, ai := range auto {
		ex.assume(c.Implies(reach, ai.build(fresh)))
	}
	li.headSt = st.clone()
	li.varPre = nil
	for _, cl := range li.decr {
		li.varPre = append(li.varPre, ex.evalInt(env2, cl.E, cl))
	}
	return reach
}

func (ex *Exec) invLabel(li *loopInfo, cl *Clause, i int) string {
	if cl.Label != "" {
		return fmt.Sprintf("loop%d:%s", li.ordinal, cl.Label)
	}
	return fmt.Sprintf("loop%d:inv%d", li.ordinal, i+1)
}

func (ex *Exec) backEdge(fr *Frame, li *loopInfo, from, h *ssa.BasicBlock, cond *smt.Term, st *State) {
	c := ex.W.C
	idx := -1
	for i, p := range h.Preds {
		if p == from {
			idx = i
		}
	}
	phiVals := map[*ssa.Phi]Val{}
	for _, in := range h.Instrs {
		phi, ok := in.(*ssa.Phi)
		if !ok {
			break
		}
		phiVals[phi] = ex.val(fr, phi.Edges[idx])
	}
	env := ex.loopEnv(fr, li, st, phiVals)
	for i, cl := range li.invs {
		goal := ex.evalBool(env, cl.E, cl)
		ex.obligePart("inv-preserved", ex.invLabel(li, cl, i), cond, goal, from.Instrs[len(from.Instrs)-1].Pos(), fr.prefix)
	}
	for _, ai := range ex.autoInvariants(fr, li, h) {
		// auto invariants are monotone-counter facts; they are re-proved, never trusted
		ex.obligePart("inv-preserved", fmt.Sprintf("loop%d:auto:%s", li.ordinal, ai.name), cond, ai.build(phiVals), token.NoPos, fr.prefix)
	}
	for _, kh := range li.kept {
		p := c.Var("p!k", smt.Int)
		goal := c.Quant("forall", []*smt.Term{p}, c.Implies(c.And(c.Le(c.IntLit(0), p), c.Lt(p, kh.brk)), c.Eq(c.Select(ex.heapGet(st, kh.key), p), c.Select(kh.pre, p))))
		ex.obligePart("inv-preserved", fmt.Sprintf("loop%d:old:%s", li.ordinal, kh.key.Name), cond, goal, token.NoPos, fr.prefix)
	}
	for i, cl := range li.asserts {
		aenv := ex.envFor(fr, st, fr.entryState(ex), nil)
		aenv.atBlock = from
		aenv.atEnd = true
		aenv.loop = li
		label := cl.Label
		if label == "" {
			label = fmt.Sprintf("assert%d", i+1)
		}
		ex.obligePart("loop-assert", fmt.Sprintf("loop%d:%s", li.ordinal, label), cond, ex.evalBool(aenv, cl.E, cl), token.NoPos, fr.prefix)
	}
	for i, cl := range li.decr {
		v := ex.evalInt(env, cl.E, cl)
		goal := c.And(c.Le(c.IntLit(0), li.varPre[i]), c.Lt(v, li.varPre[i]))
		ex.oblige("decreases", fmt.Sprintf("loop%d:variant%d", li.ordinal, i+1), cond, goal, token.NoPos, fr.prefix)
	}
}

type autoInv struct {
	name  string
	build func(phis map[*ssa.Phi]Val) *smt.Term
}

// autoInvariants proposes "counter never passes below/above its initial value" facts
// for phis of the form  p = phi(init, p +/- const).
func (ex *Exec) autoInvariants(fr *Frame, li *loopInfo, h *ssa.BasicBlock) []autoInv {
	c := ex.W.C
	var out []autoInv
	for _, in := range h.Instrs {
		phi, ok := in.(*ssa.Phi)
		if !ok {
			break
		}
		if !isInteger(phi.Type()) || isUnsigned(phi.Type()) {
			continue
		}
		var init ssa.Value
		dir := 0
		good := true
		for i, p := range h.Preds {
			e := phi.Edges[i]
			if li.blocks[p] { // back edge value
				bo, ok := e.(*ssa.BinOp)
				if !ok || (bo.Op != token.ADD && bo.Op != token.SUB) || bo.X != ssa.Value(phi) {
					good = false
					break
				}
				k, ok := bo.Y.(*ssa.Const)
				if !ok || k.Value == nil {
					good = false
					break
				}
				kv, _ := constant.Int64Val(constant.ToInt(k.Value))
				d := 1
				if (bo.Op == token.ADD) != (kv > 0) {
					d = -1
				}
				if kv == 0 || (dir != 0 && dir != d) {
					good = false
					break
				}
				dir = d
			} else {
				if init != nil && init != e {
					good = false
					break
				}
				init = e
			}
		}
		if !good || init == nil || dir == 0 {
			continue
		}
		if _, isConst := init.(*ssa.Const); !isConst {
			if _, isParam := init.(*ssa.Parameter); !isParam {
				if _, have := fr.vals[init]; !have {
					continue
				}
			}
		}
		phiC, initC, dirC := phi, init, dir
		out = append(out, autoInv{name: phi.Comment, build: func(phis map[*ssa.Phi]Val) *smt.Term {
			iv := ex.val(fr, initC).Tm
			pv := phis[phiC].Tm
			if dirC > 0 {
				return c.Le(iv, pv)
			}
			return c.Le(pv, iv)
		}})
	}
	return out
}

// valKey orders SSA values independently of the file set's load order (token.Pos offsets are not stable
// across runs when files are parsed concurrently).
func (ex *Exec) valKey(v ssa.Value) string {
	p := ex.Prog.Fset.Position(v.Pos())
	fn := ""
	if in, ok := v.(ssa.Instruction); ok && in.Parent() != nil {
		fn = in.Parent().String()
	}
	return fmt.Sprintf("%s:%09d:%s:%s", p.Filename, p.Offset, fn, v.Name())
}

// ---------------------------------------------------------------- anchors

func (ex *Exec) anchor(fr *Frame, in ssa.Instruction, pos token.Pos) string {
	if !pos.IsValid() {
		return stripRegs(in.String())
	}
	syn := fr.fn.Syntax()
	if syn == nil {
		return stripRegs(in.String())
	}
	var best ast.Node
	ast.Inspect(syn, func(n ast.Node) bool {
		if n == nil {
			return false
		}
		if pos < n.Pos() || pos >= n.End() {
			return false
		}
		switch x := n.(type) {
		case *ast.IndexExpr:
			if x.Lbrack == pos {
				best = n
			}
		case *ast.SliceExpr:
			if x.Lbrack == pos {
				best = n
			}
		case *ast.BinaryExpr:
			if x.OpPos == pos {
				best = n
			}
		case *ast.CallExpr:
			if x.Lparen == pos || x.Pos() == pos {
				best = n
			}
		case *ast.StarExpr:
			if x.Star == pos {
				best = n
			}
		case *ast.SelectorExpr:
			if x.Sel.Pos() == pos {
				best = n
			}
		case *ast.TypeAssertExpr:
			if x.Lparen == pos {
				best = n
			}
		case *ast.AssignStmt:
			if x.TokPos == pos {
				best = n
			}
		case *ast.IncDecStmt:
			if x.TokPos == pos {
				best = n
			}
		}
		return true
	})
	if best == nil {
		return stripRegs(in.String())
	}
	if e, ok := best.(ast.Expr); ok {
		return types.ExprString(e)
	}
	switch s := best.(type) {
	case *ast.AssignStmt:
		if len(s.Lhs) > 0 {
			return types.ExprString(s.Lhs[0]) + s.Tok.String()
		}
	case *ast.IncDecStmt:
		return types.ExprString(s.X) + s.Tok.String()
	}
	return stripRegs(in.String())
}

func stripRegs(s string) string {
	var sb strings.Builder
	i := 0
	for i < len(s) {
		if s[i] == 't' && (i == 0 || !isIdentChar(s[i-1])) {
			j := i + 1
			for j < len(s) && s[j] >= '0' && s[j] <= '9' {
				j++
			}
			if j > i+1 && (j == len(s) || !isIdentChar(s[j])) {
				sb.WriteByte('_')
				i = j
				continue
			}
		}
		sb.WriteByte(s[i])
		i++
	}
	return sb.String()
}

func isIdentChar(b byte) bool {
	return b == '_' || (b >= 'a' && b <= 'z') || (b >= 'A' && b <= 'Z') || (b >= '0' && b <= '9')
}

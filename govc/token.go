package main

// Output-token abstraction (DESIGN §2.4): calls that write a constant escape-sequence template to an
// output sink update a ghost "pen" (the rendition and hyperlink a standards-conforming terminal would
// have after receiving the bytes) by applying the contract-level SGR step function to the statically
// decoded parameter lists of the template. No string solving is involved.

import (
	"fmt"
	"go/constant"
	"go/types"
	"os"
	"strings"

	"golang.org/x/tools/go/ssa"

	"govc/smt"
)

// tokItem is one numeric item of an SGR parameter list in a template.
type tokItem struct {
	lit    int64 // literal value, or the decimal prefix when hole >= 0 and prefixed
	hole   int   // index of the %d argument, -1 for a literal
	prefix bool  // "3%d": value is lit*10 + arg (arg must be a single digit)
}

type tokTemplate struct {
	kind  string      // sgr | osc8 | mode | other
	lists [][]tokItem // sgr: parameter lists
	mode  tokItem     // mode: which mode
	set   int         // mode: 1 set, 0 reset, +2 push (count up), -2 pop (count down)
	text  string
	nargs int
}

// pseudo mode numbers of the ghost mode table for modes that are not DEC private modes
const (
	modeKeypad      = -1 // keypad application mode (ESC = / ESC >)
	modeKittyKB     = -2 // depth of the kitty keyboard flag stack pushed by this program
	modeCursorShape = -3 // DECSCUSR value last written
	modePointerText = -4 // 1 iff the pointer shape last requested (OSC 22) is "text", the shape terminals start with
)

func parseTemplate(s string) *tokTemplate {
	t := &tokTemplate{kind: "other", text: s}
	if s == "\x1b[%d;%dH" {
		// CUP row ; col
		t.kind, t.nargs = "cup", 2
		return t
	}
	if s == "\x1b]66;w=%d;%s\x1b\\" {
		// explicit width (OSC 66): the text occupies w columns whatever it is
		t.kind, t.nargs = "ew", 2
		return t
	}
	if strings.HasPrefix(s, "\x1b]8;") && strings.Count(s, "%s") == 2 && strings.HasSuffix(s, "\x1b\\") {
		t.kind = "osc8"
		t.nargs = 2
		return t
	}
	// terminal modes: DEC private mode set/reset (CSI ? Pm h / l, one mode per sequence), keypad application /
	// numeric mode (ESC = / ESC >), kitty keyboard push / pop (CSI > flags u / CSI < u)
	switch {
	case s == "\x1b=":
		t.kind, t.mode, t.set = "mode", tokItem{lit: modeKeypad, hole: -1}, 1
		return t
	case s == "\x1b>":
		t.kind, t.mode, t.set = "mode", tokItem{lit: modeKeypad, hole: -1}, 0
		return t
	case s == "\x1b[>%du":
		t.kind, t.mode, t.set, t.nargs = "mode", tokItem{lit: modeKittyKB, hole: -1}, +2, 1
		return t
	case s == "\x1b[%d q":
		// DECSCUSR: the cursor shape, kept in the mode table under the pseudo mode -3 (the value is the shape)
		t.kind, t.mode, t.set, t.nargs = "mode", tokItem{lit: modeCursorShape, hole: -1}, 3, 1
		return t
	case s == "\x1b]22;%s\x1b\\":
		// OSC 22: the pointer shape; the mode table records under the pseudo mode -4 whether it is "text"
		t.kind, t.mode, t.set, t.nargs = "mode", tokItem{lit: modePointerText, hole: -1}, 4, 1
		return t
	case s == "\x1b[<u":
		t.kind, t.mode, t.set = "mode", tokItem{lit: modeKittyKB, hole: -1}, -2
		return t
	case strings.HasPrefix(s, "\x1b[?") && (strings.HasSuffix(s, "h") || strings.HasSuffix(s, "l")):
		body := s[3 : len(s)-1]
		set := 0
		if strings.HasSuffix(s, "h") {
			set = 1
		}
		if body == "%d" {
			t.kind, t.mode, t.set, t.nargs = "mode", tokItem{hole: 0}, set, 1
			return t
		}
		var n int64
		if _, err := fmt.Sscanf(body, "%d", &n); err == nil && fmt.Sprint(n) == body {
			t.kind, t.mode, t.set = "mode", tokItem{lit: n, hole: -1}, set
			return t
		}
		return t
	}
	if !strings.HasPrefix(s, "\x1b[") || !strings.HasSuffix(s, "m") {
		return t
	}
	body := s[2 : len(s)-1]
	for _, ch := range body {
		if !(ch >= '0' && ch <= '9') && ch != ';' && ch != ':' && ch != '%' && ch != 'd' {
			return t // has intermediates / private markers: not SGR
		}
	}
	t.kind = "sgr"
	if body == "" {
		return t
	}
	hole := 0
	for _, p := range strings.Split(body, ";") {
		var list []tokItem
		for _, it := range strings.Split(p, ":") {
			item := tokItem{hole: -1}
			switch {
			case it == "%d":
				item.hole = hole
				hole++
			case strings.HasSuffix(it, "%d"):
				var n int64
				fmt.Sscanf(it[:len(it)-2], "%d", &n)
				item.lit, item.hole, item.prefix = n, hole, true
				hole++
			case it == "":
				item.lit = 0
			default:
				fmt.Sscanf(it, "%d", &item.lit)
			}
			list = append(list, item)
		}
		t.lists = append(t.lists, list)
	}
	t.nargs = hole
	return t
}

// Token is the symbolic content of a string value produced by a template call (tparm, Sprintf).
type Token struct {
	tmpl *tokTemplate
	args []Val
}

// modesKey: the ghost table of terminal modes (mode number -> 0/1, or a depth for stack-like modes) that a
// standards-conforming terminal has after the tokens emitted so far.
func (ex *Exec) modesKey() *HeapKey {
	return ex.regKey("X:modes", smt.ArraySort(smt.Int, smt.Int), nil)
}

// the ghost cursor of the terminal (1-based row and column, as CUP counts) after the bytes written so far
func (ex *Exec) trowKey() *HeapKey { return ex.regKey("X:trow", smt.Int, nil) }
func (ex *Exec) tcolKey() *HeapKey { return ex.regKey("X:tcol", smt.Int, nil) }

// advanceCursor: plain text of display width w was written.
func (ex *Exec) advanceCursor(st *State, w *smt.Term) {
	k := ex.tcolKey()
	st.heap[k.Name] = ex.W.C.Add(ex.heapGet(st, k), w)
}

func (ex *Exec) penKey() *HeapKey {
	return ex.regKey("X:pen", ex.W.SortOf(ex.styleType()), ex.styleType())
}

func (ex *Exec) styleType() types.Type {
	if ex.styleT != nil {
		return ex.styleT
	}
	for _, pk := range ex.Prog.Pkgs {
		if pk.PkgPath == ex.Prog.ModPath && pk.Types != nil {
			if tn, ok := pk.Types.Scope().Lookup("Style").(*types.TypeName); ok {
				ex.styleT = tn.Type()
			}
		}
	}
	return ex.styleT
}

// constString resolves a string-typed SSA value to its constant text: a literal, or a package-level
// variable whose only store in the package initialiser is a literal (later overrides such as
// VAXIS_FORCE_LEGACY_SGR are recorded as an assumption).
func (ex *Exec) constString(v ssa.Value) (string, bool) {
	switch x := v.(type) {
	case *ssa.Const:
		if x.Value != nil && x.Value.Kind() == constant.String {
			return constant.StringVal(x.Value), true
		}
	case *ssa.UnOp:
		if g, ok := x.X.(*ssa.Global); ok {
			if s, ok := ex.Prog.GlobalInitString(g); ok {
				ex.note(ex.Abstr, "assume: package variable "+g.Name()+" still holds its initial template (no legacy-SGR override)")
				return s, true
			}
		}
	}
	return "", false
}

// variadicArgs recovers the values packed into a variadic ...any slice built at the call site.
func (ex *Exec) variadicArgs(fr *Frame, v ssa.Value) ([]Val, bool) {
	sl, ok := v.(*ssa.Slice)
	if !ok {
		if c, isC := v.(*ssa.Const); isC && c.Value == nil {
			return nil, true // nil slice: no arguments
		}
		return nil, false
	}
	al, ok := sl.X.(*ssa.Alloc)
	if !ok {
		return nil, false
	}
	at, ok := al.Type().(*types.Pointer).Elem().Underlying().(*types.Array)
	if !ok {
		return nil, false
	}
	out := make([]Val, at.Len())
	found := make([]bool, at.Len())
	for _, ref := range *al.Referrers() {
		ia, ok := ref.(*ssa.IndexAddr)
		if !ok {
			continue
		}
		idx, ok := ia.Index.(*ssa.Const)
		if !ok {
			return nil, false
		}
		k := int(idx.Int64())
		for _, r2 := range *ia.Referrers() {
			if st, ok := r2.(*ssa.Store); ok && st.Addr == ia {
				val := st.Val
				if mi, ok := val.(*ssa.MakeInterface); ok {
					val = mi.X
				}
				out[k] = ex.val(fr, val)
				found[k] = true
			}
		}
	}
	for _, f := range found {
		if !f {
			return nil, false
		}
	}
	return out, true
}

// sinkKind classifies a callee as an output sink or a template function.
//
//	"write"   f(sink, s)            e.g. (*strings.Builder).WriteString
//	"printf"  f(sink, format, a...) e.g. fmt.Fprintf
//	"sprintf" f(format, a...) string
func sinkKind(callee *ssa.Function) (kind string, fmtIdx int) {
	switch callee.String() {
	case "(*strings.Builder).WriteString", "(*bytes.Buffer).WriteString", "io.WriteString":
		return "write", 1
	case "fmt.Fprintf":
		return "printf", 1
	case "fmt.Sprintf":
		return "sprintf", 0
	}
	if pk := pkgOf(callee); pk != nil && strings.HasSuffix(pk.Path(), "~rockorager/vaxis") {
		switch localKey(callee) {
		case "tparm":
			return "sprintf", 0
		case "(*writer).WriteString", "(*writer).WriteStringLocked":
			return "write", 1
		case "(*writer).Printf":
			return "printf", 1
		}
	}
	return "", 0
}

// tokenCall handles sink and template calls; ok=false means the call is not one of them.
func (ex *Exec) tokenCall(fr *Frame, callee *ssa.Function, cc *ssa.CallCommon, args []Val, st *State, mkRes func(string) Val) (Val, bool) {
	if ex.styleType() == nil || ex.PC == nil {
		return Val{}, false
	}
	kind, fi := sinkKind(callee)
	if kind == "" || fi >= len(cc.Args) {
		return Val{}, false
	}
	if !ex.tokensOn() {
		return Val{}, false
	}
	switch kind {
	case "sprintf":
		text, ok := ex.constString(cc.Args[fi])
		res := mkRes("r_" + callee.Name())
		if !ok {
			return res, true
		}
		va, ok := ex.variadicArgs(fr, cc.Args[fi+1])
		tm := parseTemplate(text)
		if ok && len(va) == tm.nargs {
			res.Tok = &Token{tmpl: tm, args: va}
		}
		if res.Tm != nil {
			// the literal bytes of the format are in the result: it is at least that long
			lit := 0
			for i := 0; i < len(text); i++ {
				if text[i] == '%' && i+1 < len(text) {
					i++
					if text[i] == '%' {
						lit++
					}
					continue
				}
				lit++
			}
			if lit > 0 {
				ex.assume(ex.W.C.Ge(ex.W.C.App("str_len", smt.Int, res.Tm), ex.W.C.IntLit(int64(lit))))
			}
		}
		return res, true
	case "write":
		res := mkRes("r_" + callee.Name())
		if text, ok := ex.constString(cc.Args[fi]); ok {
			ex.applyToken(st, &Token{tmpl: parseTemplate(text)})
			return res, true
		}
		if args[fi].Tok != nil {
			ex.applyToken(st, args[fi].Tok)
			return res, true
		}
		// arbitrary text (graphemes, payloads): assumed free of escape sequences
		ex.note(ex.Abstr, "assume: non-constant text written to the output contains no escape sequences")
		if ex.cursorTracked() && args[fi].Tm != nil && ex.W.inModule(pkgOf(callee)) {
			// (only at the module's own writer: inside it the text is a parameter and is passed on untouched)
			ex.W.C.DeclareFun("uf_textw", []smt.Sort{args[fi].Tm.Sort}, smt.Int)
			ex.advanceCursor(st, ex.W.C.App("uf_textw", smt.Int, args[fi].Tm))
		}
		return res, true
	case "printf":
		res := mkRes("r_" + callee.Name())
		text, ok := ex.constString(cc.Args[fi])
		if !ok {
			ex.note(ex.Abstr, "output with a non-constant format: pen forgotten")
			ex.havocKey(st, ex.penKey())
			return res, true
		}
		tm := parseTemplate(text)
		va, ok := ex.variadicArgs(fr, cc.Args[fi+1])
		if !ok || len(va) != tm.nargs {
			if tm.kind != "other" {
				ex.havocKey(st, ex.penKey())
			}
			return res, true
		}
		ex.applyToken(st, &Token{tmpl: tm, args: va})
		return res, true
	}
	return Val{}, false
}

func (ex *Exec) cursorTracked() bool {
	return ex.FC != nil && ex.FC.Tokens && ex.FC.Cursor
}

func (ex *Exec) tokensOn() bool {
	return ex.FC != nil && ex.FC.Tokens
}

// applyToken updates the ghost pen for one emitted token.
func (ex *Exec) applyToken(st *State, tk *Token) {
	c := ex.W.C
	k := ex.penKey()
	pen := ex.heapGet(st, k)
	styleT := ex.styleType()
	dt := ex.W.DT(ex.W.SortOf(styleT))
	ex.tokenLog = append(ex.tokenLog, tk.tmpl.text)
	switch tk.tmpl.kind {
	case "other":
		// constant text without an escape character is plain text: the cursor moves by its length (ASCII)
		if t := tk.tmpl.text; t != "" && !strings.ContainsAny(t, "\x1b\r\n\b\t") && len(tk.args) == 0 {
			ascii := true
			for i := 0; i < len(t); i++ {
				ascii = ascii && t[i] >= 0x20 && t[i] < 0x7f
			}
			if ascii && ex.cursorTracked() {
				ex.advanceCursor(st, c.IntLit(int64(len(t))))
			}
		}
		return
	case "cup":
		if len(tk.args) == 2 && tk.args[0].Tm != nil && tk.args[1].Tm != nil {
			st.heap[ex.trowKey().Name] = tk.args[0].Tm
			st.heap[ex.tcolKey().Name] = tk.args[1].Tm
		} else {
			ex.havocKey(st, ex.trowKey())
			ex.havocKey(st, ex.tcolKey())
		}
		return
	case "ew":
		if ex.cursorTracked() && len(tk.args) == 2 && tk.args[0].Tm != nil {
			ex.advanceCursor(st, tk.args[0].Tm)
		}
		return
	case "mode":
		mk := ex.modesKey()
		tbl := ex.heapGet(st, mk)
		var m *smt.Term
		if tk.tmpl.mode.hole >= 0 {
			if tk.tmpl.mode.hole >= len(tk.args) || tk.args[tk.tmpl.mode.hole].Tm == nil {
				ex.havocKey(st, mk)
				return
			}
			m = tk.args[tk.tmpl.mode.hole].Tm
		} else {
			m = c.IntLit(tk.tmpl.mode.lit)
		}
		switch tk.tmpl.set {
		case 0, 1:
			st.heap[mk.Name] = c.Store(tbl, m, c.IntLit(int64(tk.tmpl.set)))
		case 2:
			st.heap[mk.Name] = c.Store(tbl, m, c.Add(c.Select(tbl, m), c.IntLit(1)))
		case -2:
			st.heap[mk.Name] = c.Store(tbl, m, c.Sub(c.Select(tbl, m), c.IntLit(1)))
		case 3:
			if len(tk.args) == 1 && tk.args[0].Tm != nil {
				st.heap[mk.Name] = c.Store(tbl, m, tk.args[0].Tm)
			} else {
				ex.havocKey(st, mk)
			}
		case 4:
			if len(tk.args) == 1 && tk.args[0].Tm != nil {
				st.heap[mk.Name] = c.Store(tbl, m, c.Ite(c.Eq(tk.args[0].Tm, ex.W.StrLit("text")), c.IntLit(1), c.IntLit(0)))
			} else {
				ex.havocKey(st, mk)
			}
		}
		return
	case "osc8":
		// OSC 8 ; params ; url ST
		if len(tk.args) == 2 && tk.args[0].Tm != nil && tk.args[1].Tm != nil {
			stt := styleT.Underlying().(*types.Struct)
			np := pen
			for i := 0; i < stt.NumFields(); i++ {
				switch stt.Field(i).Name() {
				case "Hyperlink":
					np = c.WithField(dt, i, np, tk.args[1].Tm)
				case "HyperlinkParams":
					np = c.WithField(dt, i, np, tk.args[0].Tm)
				}
			}
			st.heap[k.Name] = np
		}
		return
	}
	// SGR. A template item of the form "3%d" (one decimal digit appended to a literal) makes the SGR code itself
	// symbolic; the step function is then folded once per digit with a literal code (so that it simplifies to
	// "this field is untouched" for every field the code cannot affect) and the results are selected by the digit.
	lists := tk.tmpl.lists
	if len(lists) == 0 {
		lists = [][]tokItem{{{lit: 0, hole: -1}}} // no parameters means 0
	}
	pl, pi := -1, -1
	nprefix := 0
	for li, l := range lists {
		for ii, it := range l {
			if it.prefix {
				nprefix++
				pl, pi = li, ii
			}
		}
	}
	if nprefix == 1 && os.Getenv("GOVC_NO_DIGIT") == "" && tk.args[lists[pl][pi].hole].Tm != nil {
		a := tk.args[lists[pl][pi].hole].Tm
		res := c.Fresh("pen_unknown", pen.Sort) // digit outside 0..9: the bytes do not denote this code
		okAll := true
		for k := 9; k >= 0; k-- {
			cp := make([][]tokItem, len(lists))
			for li, l := range lists {
				cp[li] = append([]tokItem{}, l...)
			}
			cp[pl][pi] = tokItem{lit: lists[pl][pi].lit*10 + int64(k), hole: -1}
			pk := ex.foldSGR(st, pen, cp, tk)
			if pk == nil {
				okAll = false
				break
			}
			res = c.Ite(c.Eq(a, c.IntLit(int64(k))), pk, res)
		}
		if okAll {
			st.heap[k.Name] = res
			return
		}
	}
	if np := ex.foldSGR(st, pen, lists, tk); np != nil {
		st.heap[k.Name] = np
	} else {
		ex.havocKey(st, k)
	}
}

// foldSGR folds the contract-level SGR step function over the parameter lists of one template; nil if the shape
// cannot be decided statically.
func (ex *Exec) foldSGR(st *State, pen *smt.Term, lists [][]tokItem, tk *Token) *smt.Term {
	c := ex.W.C
	styleT := ex.styleType()
	intT := types.Typ[types.Int]
	listT := types.NewSlice(intT)
	kInner, kOuter := ex.keyElem(intT), ex.keyElem(listT)
	outerRef := ex.allocRef(st)
	outerArr := ex.W.zeroOfSort(kOuter.Sort.ArrayElem())
	for li, l := range lists {
		ref := ex.allocRef(st)
		arr := ex.W.zeroOfSort(kInner.Sort.ArrayElem())
		for ii, it := range l {
			var v *smt.Term
			switch {
			case it.hole < 0:
				v = c.IntLit(it.lit)
			case it.prefix:
				// "3%d": the bytes denote lit*10+arg only for a single digit; otherwise the value is unknown
				a := tk.args[it.hole].Tm
				v = c.Ite(c.And(c.Le(c.IntLit(0), a), c.Le(a, c.IntLit(9))), c.Add(c.IntLit(it.lit*10), a), c.Fresh("tokval", smt.Int))
			default:
				v = tk.args[it.hole].Tm
			}
			arr = c.Store(arr, c.IntLit(int64(ii)), v)
		}
		st.heap[kInner.Name] = c.Store(ex.heapGet(st, kInner), ref, arr)
		outerArr = c.Store(outerArr, c.IntLit(int64(li)), ex.mkSlice(ref, c.IntLit(0), c.IntLit(int64(len(l))), c.IntLit(int64(len(l)))))
	}
	st.heap[kOuter.Name] = c.Store(ex.heapGet(st, kOuter), outerRef, outerArr)
	ps := Val{T: types.NewSlice(listT), Tm: ex.mkSlice(outerRef, c.IntLit(0), c.IntLit(int64(len(lists))), c.IntLit(int64(len(lists))))}
	cur := Val{T: styleT, Tm: pen}
	stopped := c.False()
	i := 0
	for steps := 0; i < len(lists) && steps < 16; steps++ {
		iv := Val{T: intT, Tm: c.IntLit(int64(i))}
		stop := ex.evalPredByName("SgrStop", st, ps, iv)
		if stop.Tm == nil {
			return nil
		}
		stopped = c.Or(stopped, stop.Tm)
		next := ex.evalPredByName("SgrStyle", st, ps, iv, cur)
		cur = Val{T: styleT, Tm: c.Ite(stopped, cur.Tm, next.Tm)}
		nx := ex.evalPredByName("SgrNext", st, ps, iv)
		n, ok := nx.Tm.IntVal()
		if !ok || !n.IsInt64() {
			if i == len(lists)-1 {
				break // last list: where processing would continue does not matter
			}
			ex.note(ex.Abstr, "token with statically undecidable SGR shape: "+tk.tmpl.text)
			return nil
		}
		i = int(n.Int64())
	}
	return cur.Tm
}

// evalPredByName applies a contract predicate of the root package to symbolic arguments.
func (ex *Exec) evalPredByName(name string, st *State, args ...Val) Val {
	pd := ex.Prog.FindPred(name)
	if pd == nil {
		ex.contractError(nil, "the output-token abstraction needs predicate "+name)
	}
	env := ex.envFor(nil, st, st, nil)
	if tp := ex.Prog.TypesPkg(pd.PkgPath); tp != nil {
		env.pkg = tp
		env.pc = ex.Prog.contracts[pd.PkgPath]
	}
	env.boundNames = map[string]bool{}
	var exprs []Expr
	for i, a := range args {
		n := fmt.Sprintf("tok!arg%d", i)
		env.vars[n] = a
		env.boundNames[n] = true
		exprs = append(exprs, &EIdent{n})
	}
	env.cl = &Clause{Text: "token effect"}
	return env.applyPred(pd, exprs)
}

// ---------------------------------------------------------------- vocabulary inclusion (C18)

// emittedSGRCodes statically collects the leading SGR codes of every constant template occurring in fn.
func (ex *Exec) emittedSGRCodes(fn *ssa.Function) map[int]string {
	out := map[int]string{}
	add := func(text string) {
		tm := parseTemplate(text)
		if tm.kind != "sgr" {
			return
		}
		if len(tm.lists) == 0 {
			out[0] = text
		}
		for _, l := range tm.lists {
			it := l[0]
			switch {
			case it.hole < 0:
				out[int(it.lit)] = text
			case it.prefix:
				for d := 0; d < 8; d++ { // "3%d" is used for the eight basic colours
					out[int(it.lit)*10+d] = text
				}
			}
		}
	}
	for _, b := range fn.Blocks {
		for _, in := range b.Instrs {
			for _, op := range in.Operands(nil) {
				if op == nil || *op == nil {
					continue
				}
				if s, ok := ex.constString(*op); ok {
					add(s)
				}
			}
		}
	}
	return out
}

// handledStringLabels collects the string constants fn compares values against (switch case labels).
func handledStringLabels(fn *ssa.Function) map[string]bool {
	out := map[string]bool{}
	for _, b := range fn.Blocks {
		for _, in := range b.Instrs {
			bo, ok := in.(*ssa.BinOp)
			if !ok || bo.Op.String() != "==" {
				continue
			}
			for _, v := range []ssa.Value{bo.X, bo.Y} {
				if c, ok := v.(*ssa.Const); ok && c.Value != nil && c.Value.Kind() == constant.String {
					out[constant.StringVal(c.Value)] = true
				}
			}
		}
	}
	return out
}

// vocabObligations: every leading SGR code the producer can emit has a case label in this consumer.
func (ex *Exec) vocabObligations() {
	if ex.FC == nil {
		return
	}
	c := ex.W.C
	for _, vc := range ex.FC.Vocab {
		var prod *ssa.Function
		for f := range ex.Prog.allFuncs {
			if pkgOf(f) == pkgOf(ex.Fn) && localKey(f) == vc.Producer {
				prod = f
			}
		}
		if prod == nil {
			ex.contractError(nil, "vocab: unknown producer "+vc.Producer)
		}
		codes := ex.emittedSGRCodes(prod)
		labels := handledStringLabels(ex.Fn)
		var missing []string
		for code := range codes {
			if !labels[fmt.Sprint(code)] {
				missing = append(missing, fmt.Sprint(code))
			}
		}
		goal := c.True()
		if len(missing) > 0 {
			goal = c.False()
		}
		ex.obligeAlways("vocab", vc.Label, c.True(), goal, ex.Fn.Pos())
		sortStrings(missing)
		ex.Obls[len(ex.Obls)-1].Note = fmt.Sprintf("%d leading SGR codes emitted by %s; without a case label here: %v", len(codes), vc.Producer, missing)
	}
}

func sortStrings(s []string) {
	for i := 1; i < len(s); i++ {
		for j := i; j > 0 && s[j] < s[j-1]; j-- {
			s[j], s[j-1] = s[j-1], s[j]
		}
	}
}

// ---------------------------------------------------------------- structure of escape-sequence strings (C13)

// seqShape is the statically decoded structure of a string that is one escape sequence (or a template of one):
// kind 1 CSI (ESC [ lead? p;p;.. final), 2 SS3 (ESC O final), 3 ESC final, 0 anything else.
type seqShape struct {
	kind   int
	lead   int       // private marker < = > ? of a CSI, 0 if none
	params []tokItem // literal or hole (index of the %d argument)
	final  tokItem   // literal rune or hole (index of the %c argument)
	nargs  int
}

func parseSeqShape(s string) seqShape {
	none := seqShape{}
	if len(s) < 2 || s[0] != 0x1b {
		return none
	}
	finalItem := func(rest string, hole *int) (tokItem, bool) {
		if rest == "%c" {
			it := tokItem{hole: *hole}
			*hole++
			return it, true
		}
		rs := []rune(rest)
		if len(rs) == 1 && rs[0] >= 0x40 && rs[0] <= 0x7e {
			return tokItem{lit: int64(rs[0]), hole: -1}, true
		}
		return tokItem{}, false
	}
	hole := 0
	switch s[1] {
	case '[':
		body := s[2:]
		sh := seqShape{kind: 1}
		if len(body) > 0 && strings.ContainsRune("<=>?", rune(body[0])) {
			sh.lead = int(body[0])
			body = body[1:]
		}
		// parameters: everything up to the final
		i := 0
		for i < len(body) && (body[i] >= '0' && body[i] <= '9' || body[i] == ';' || (body[i] == '%' && i+1 < len(body) && body[i+1] == 'd')) {
			if body[i] == '%' {
				i += 2
			} else {
				i++
			}
		}
		ps, fin := body[:i], body[i:]
		if ps != "" {
			for _, p := range strings.Split(ps, ";") {
				switch {
				case p == "%d":
					sh.params = append(sh.params, tokItem{hole: hole})
					hole++
				case p == "":
					sh.params = append(sh.params, tokItem{lit: 0, hole: -1})
				default:
					var n int64
					if _, err := fmt.Sscanf(p, "%d", &n); err != nil || fmt.Sprint(n) != strings.TrimLeft(p, "0") && !(n == 0 && strings.Trim(p, "0") == "") {
						return none
					}
					sh.params = append(sh.params, tokItem{lit: n, hole: -1})
				}
			}
		}
		f, ok := finalItem(fin, &hole)
		if !ok {
			return none
		}
		sh.final, sh.nargs = f, hole
		return sh
	case 'O':
		f, ok := finalItem(s[2:], &hole)
		if !ok {
			return none
		}
		return seqShape{kind: 2, final: f, nargs: hole}
	default:
		f, ok := finalItem(s[1:], &hole)
		if !ok {
			return none
		}
		return seqShape{kind: 3, final: f, nargs: hole}
	}
}

// seqFacts states the decoded structure of string term t (a literal, or the result of Sprintf on a constant
// template with arguments args) through the uninterpreted functions sq_kind, sq_lead, sq_final, sq_n, sq_p.
func (w *World) seqFacts(t *smt.Term, sh seqShape, args []*smt.Term) []*smt.Term {
	c := w.C
	c.DeclareFun("sq_kind", []smt.Sort{w.Str}, smt.Int)
	c.DeclareFun("sq_lead", []smt.Sort{w.Str}, smt.Int)
	c.DeclareFun("sq_final", []smt.Sort{w.Str}, smt.Int)
	c.DeclareFun("sq_n", []smt.Sort{w.Str}, smt.Int)
	c.DeclareFun("sq_p", []smt.Sort{w.Str, smt.Int}, smt.Int)
	val := func(it tokItem) *smt.Term {
		if it.hole >= 0 {
			if it.hole < len(args) && args[it.hole] != nil {
				return args[it.hole]
			}
			return nil
		}
		return c.IntLit(it.lit)
	}
	out := []*smt.Term{c.Eq(c.App("sq_kind", smt.Int, t), c.IntLit(int64(sh.kind)))}
	if sh.kind == 0 {
		return out
	}
	out = append(out, c.Eq(c.App("sq_lead", smt.Int, t), c.IntLit(int64(sh.lead))))
	if f := val(sh.final); f != nil {
		out = append(out, c.Eq(c.App("sq_final", smt.Int, t), f))
	}
	out = append(out, c.Eq(c.App("sq_n", smt.Int, t), c.IntLit(int64(len(sh.params)))))
	for i, p := range sh.params {
		if v := val(p); v != nil {
			out = append(out, c.Eq(c.App("sq_p", smt.Int, t, c.IntLit(int64(i))), v))
		}
	}
	return out
}

// Package smt is a small hash-consed SMT-LIB term DAG with a printer.
package smt

import (
	"fmt"
	"math/big"
	"sort"
	"strings"
)

type Sort string

const (
	Bool Sort = "Bool"
	Int  Sort = "Int"
	Real Sort = "Real"
)

func ArraySort(idx, elem Sort) Sort { return Sort("(Array " + string(idx) + " " + string(elem) + ")") }
func BVSort(n int) Sort             { return Sort(fmt.Sprintf("(_ BitVec %d)", n)) }

func (s Sort) IsArray() bool { return strings.HasPrefix(string(s), "(Array ") }
func (s Sort) IsBV() bool    { return strings.HasPrefix(string(s), "(_ BitVec ") }
func (s Sort) BVWidth() int {
	var n int
	fmt.Sscanf(string(s), "(_ BitVec %d)", &n)
	return n
}

// ArrayElem returns the element sort of (Array Int X).
func (s Sort) ArrayElem() Sort {
	str := string(s)
	if !s.IsArray() {
		panic("not array sort: " + str)
	}
	// "(Array Int X)" : skip "(Array ", then one sort token, then space
	rest := str[len("(Array "):]
	n := sortTokenLen(rest)
	return Sort(rest[n+1 : len(rest)-1])
}

func sortTokenLen(s string) int {
	if s[0] != '(' {
		i := strings.IndexAny(s, " )")
		if i < 0 {
			return len(s)
		}
		return i
	}
	depth := 0
	for i, c := range s {
		if c == '(' {
			depth++
		} else if c == ')' {
			depth--
			if depth == 0 {
				return i + 1
			}
		}
	}
	return len(s)
}

type Term struct {
	Op    string // operator / symbol name / literal text
	Args  []*Term
	Sort  Sort
	ID    int
	Kind  Kind
	Bound []*Term // for quantifiers: bound variables
	Pats  [][]*Term
	open  bool // contains a bound variable
}

type Kind uint8

const (
	KApp   Kind = iota // builtin or declared function application
	KConst             // declared constant symbol
	KLit               // literal
	KVar               // bound variable
	KQuant             // forall/exists; Op = "forall"|"exists"; Args[0] = body
)

// TraceCreate, when set, is called for every newly created term (debugging aid for determinism).
var TraceCreate func(id int, key string)

type DeclFun struct {
	Name string
	Args []Sort
	Res  Sort
}

type Datatype struct {
	Name   Sort
	Ctor   string
	Fields []string // selector names
	Sorts  []Sort
}

type Ctx struct {
	tab       map[string]*Term
	nextID    int
	Consts    map[string]Sort
	Funs      map[string]*DeclFun
	Datatypes map[Sort]*Datatype
	dtOrder   []Sort
	SortsDecl map[Sort]bool
	sortOrder []Sort
	fresh     map[string]int
	// DefFuns: defined functions (name -> full define-fun text), emitted when referenced.
	DefFuns   map[string]*DefFun
	defOrder  []string
	fieldMemo map[string]map[[2]int]*Term
	quantMemo map[int]bool
	varMemo   map[int]bool
	i2bMemo   map[[2]int]*Term
}

type DefFun struct {
	Name string
	Text string // full (define-fun ...) or (define-fun-rec ...) text
	Deps []string
	Res  Sort
}

func NewCtx() *Ctx {
	return &Ctx{tab: map[string]*Term{}, Consts: map[string]Sort{}, Funs: map[string]*DeclFun{},
		Datatypes: map[Sort]*Datatype{}, SortsDecl: map[Sort]bool{}, fresh: map[string]int{}, DefFuns: map[string]*DefFun{}}
}

func (c *Ctx) mk(kind Kind, op string, sort Sort, args ...*Term) *Term {
	var sb strings.Builder
	sb.WriteByte(byte('0' + kind))
	sb.WriteString(op)
	sb.WriteByte('|')
	sb.WriteString(string(sort))
	for _, a := range args {
		fmt.Fprintf(&sb, ",%d", a.ID)
	}
	key := sb.String()
	if t, ok := c.tab[key]; ok {
		return t
	}
	c.nextID++
	t := &Term{Op: op, Args: args, Sort: sort, ID: c.nextID, Kind: kind}
	if TraceCreate != nil {
		TraceCreate(c.nextID, key)
	}
	for _, a := range args {
		if a.open {
			t.open = true
		}
	}
	if kind == KVar {
		t.open = true
	}
	c.tab[key] = t
	return t
}

func Mangle(s string) string {
	var sb strings.Builder
	for _, r := range s {
		switch {
		case r >= 'a' && r <= 'z', r >= 'A' && r <= 'Z', r >= '0' && r <= '9', r == '_':
			sb.WriteRune(r)
		case r == '.':
			sb.WriteString("_")
		case r == '*':
			sb.WriteString("P")
		case r == '[':
			sb.WriteString("L")
		case r == ']':
			sb.WriteString("R")
		case r == '/':
			sb.WriteString("_")
		case r == '~' || r == '(' || r == ')' || r == ' ' || r == '-':
		default:
			fmt.Fprintf(&sb, "u%x", r)
		}
	}
	return sb.String()
}

func (c *Ctx) DeclareSort(s Sort) {
	if !c.SortsDecl[s] {
		c.SortsDecl[s] = true
		c.sortOrder = append(c.sortOrder, s)
	}
}

func (c *Ctx) DeclareDatatype(dt *Datatype) {
	if _, ok := c.Datatypes[dt.Name]; ok {
		return
	}
	c.Datatypes[dt.Name] = dt
	c.dtOrder = append(c.dtOrder, dt.Name)
}

// Const returns the declared constant with this exact name (declaring it if new).
func (c *Ctx) Const(name string, sort Sort) *Term {
	if s, ok := c.Consts[name]; ok && s != sort {
		panic(fmt.Sprintf("const %s redeclared %s vs %s", name, s, sort))
	}
	c.Consts[name] = sort
	return c.mk(KConst, name, sort)
}

// Fresh returns a new constant with a unique name derived from base.
func (c *Ctx) Fresh(base string, sort Sort) *Term {
	base = "v_" + Mangle(base)
	for {
		n := c.fresh[base]
		c.fresh[base] = n + 1
		name := base
		if n > 0 {
			name = fmt.Sprintf("%s_%d", base, n)
		}
		if _, ok := c.Consts[name]; !ok {
			return c.Const(name, sort)
		}
	}
}

func (c *Ctx) Var(name string, sort Sort) *Term { return c.mk(KVar, name, sort) }

func (c *Ctx) DeclareFun(name string, args []Sort, res Sort) *DeclFun {
	if f, ok := c.Funs[name]; ok {
		return f
	}
	f := &DeclFun{Name: name, Args: args, Res: res}
	c.Funs[name] = f
	return f
}

func (c *Ctx) DefineFun(name, text string, res Sort, deps ...string) {
	if _, ok := c.DefFuns[name]; ok {
		return
	}
	c.DefFuns[name] = &DefFun{Name: name, Text: text, Deps: deps, Res: res}
	c.defOrder = append(c.defOrder, name)
}

func (c *Ctx) App(name string, res Sort, args ...*Term) *Term {
	// the int<->bit-vector bridge: round trips and literals are folded
	if len(args) == 1 {
		a := args[0]
		if strings.HasPrefix(name, "(_ int2bv ") && res.IsBV() {
			if a.Kind == KApp && a.Op == "bv2nat" && a.Args[0].Sort == res {
				return a.Args[0]
			}
			if a.Kind == KApp && a.Op == "ite" && len(a.Args) == 3 {
				// int2bv(ite(c, x, y)) = ite(c, int2bv(x), int2bv(y)): exposes round trips below the branches
				if c.i2bMemo == nil {
					c.i2bMemo = map[[2]int]*Term{}
				}
				key := [2]int{res.BVWidth(), a.ID}
				if r, ok := c.i2bMemo[key]; ok {
					return r
				}
				r := c.Ite(a.Args[0], c.App(name, res, a.Args[1]), c.App(name, res, a.Args[2]))
				c.i2bMemo[key] = r
				return r
			}
			if n, ok := a.IntVal(); ok && res.BVWidth() <= 64 {
				m := new(big.Int).Mod(n, new(big.Int).Lsh(big.NewInt(1), uint(res.BVWidth())))
				return c.BVLit(m.Uint64(), res.BVWidth())
			}
		}
		if name == "bv2nat" && a.Kind == KLit && a.Sort.IsBV() {
			var v uint64
			var w int
			if _, err := fmt.Sscanf(a.Op, "(_ bv%d %d)", &v, &w); err == nil {
				return c.BigLit(new(big.Int).SetUint64(v))
			}
		}
	}
	return c.mk(KApp, name, res, args...)
}

func isBV2Nat(t *Term) bool { return t.Kind == KApp && t.Op == "bv2nat" && len(t.Args) == 1 }

// ---- literals

func (c *Ctx) True() *Term  { return c.mk(KLit, "true", Bool) }
func (c *Ctx) False() *Term { return c.mk(KLit, "false", Bool) }
func (c *Ctx) BoolLit(b bool) *Term {
	if b {
		return c.True()
	}
	return c.False()
}
func (c *Ctx) IntLit(n int64) *Term { return c.BigLit(big.NewInt(n)) }
func (c *Ctx) BigLit(n *big.Int) *Term {
	if n.Sign() < 0 {
		return c.mk(KLit, "(- "+new(big.Int).Neg(n).String()+")", Int)
	}
	return c.mk(KLit, n.String(), Int)
}
func (c *Ctx) RealLit(r *big.Rat) *Term {
	neg := r.Sign() < 0
	a := new(big.Rat).Abs(r)
	s := "(/ " + a.Num().String() + ".0 " + a.Denom().String() + ".0)"
	if a.IsInt() {
		s = a.Num().String() + ".0"
	}
	if neg {
		s = "(- " + s + ")"
	}
	return c.mk(KLit, s, Real)
}
func (c *Ctx) BVLit(v uint64, w int) *Term {
	if w < 64 {
		v &= (1 << uint(w)) - 1
	}
	return c.mk(KLit, fmt.Sprintf("(_ bv%d %d)", v, w), BVSort(w))
}

func (t *Term) IsOpen() bool  { return t.open }
func (t *Term) IsTrue() bool  { return t.Kind == KLit && t.Op == "true" }
func (t *Term) IsFalse() bool { return t.Kind == KLit && t.Op == "false" }
func (t *Term) IntVal() (*big.Int, bool) {
	if t.Kind != KLit || t.Sort != Int {
		return nil, false
	}
	s := t.Op
	neg := false
	if strings.HasPrefix(s, "(- ") {
		neg = true
		s = s[3 : len(s)-1]
	}
	n, ok := new(big.Int).SetString(s, 10)
	if !ok {
		return nil, false
	}
	if neg {
		n.Neg(n)
	}
	return n, true
}

// ---- boolean

func (c *Ctx) Not(a *Term) *Term {
	if a.IsTrue() {
		return c.False()
	}
	if a.IsFalse() {
		return c.True()
	}
	if a.Kind == KApp && a.Op == "not" {
		return a.Args[0]
	}
	return c.mk(KApp, "not", Bool, a)
}

func (c *Ctx) And(as ...*Term) *Term {
	var out []*Term
	seen := map[int]bool{}
	for _, a := range as {
		if a.IsTrue() {
			continue
		}
		if a.IsFalse() {
			return a
		}
		if a.Kind == KApp && a.Op == "and" {
			for _, b := range a.Args {
				if !seen[b.ID] {
					seen[b.ID] = true
					out = append(out, b)
				}
			}
			continue
		}
		if !seen[a.ID] {
			seen[a.ID] = true
			out = append(out, a)
		}
	}
	for _, a := range out {
		if a.Kind == KApp && a.Op == "not" && seen[a.Args[0].ID] {
			return c.False()
		}
	}
	if len(out) == 0 {
		return c.True()
	}
	if len(out) == 1 {
		return out[0]
	}
	return c.mk(KApp, "and", Bool, out...)
}

func (c *Ctx) Or(as ...*Term) *Term {
	var out []*Term
	seen := map[int]bool{}
	for _, a := range as {
		if a.IsFalse() {
			continue
		}
		if a.IsTrue() {
			return a
		}
		if a.Kind == KApp && a.Op == "or" {
			for _, b := range a.Args {
				if !seen[b.ID] {
					seen[b.ID] = true
					out = append(out, b)
				}
			}
			continue
		}
		if !seen[a.ID] {
			seen[a.ID] = true
			out = append(out, a)
		}
	}
	for _, a := range out {
		if a.Kind == KApp && a.Op == "not" && seen[a.Args[0].ID] {
			return c.True()
		}
	}
	if len(out) == 0 {
		return c.False()
	}
	if len(out) == 1 {
		return out[0]
	}
	return c.mk(KApp, "or", Bool, out...)
}

func (c *Ctx) Implies(a, b *Term) *Term {
	if a.IsTrue() {
		return b
	}
	if a.IsFalse() || b.IsTrue() {
		return c.True()
	}
	if b.IsFalse() {
		return c.Not(a)
	}
	return c.mk(KApp, "=>", Bool, a, b)
}

func (c *Ctx) Ite(cond, a, b *Term) *Term {
	if cond.IsTrue() {
		return a
	}
	if cond.IsFalse() {
		return b
	}
	if a == b {
		return a
	}
	if a.Sort != b.Sort {
		panic(fmt.Sprintf("ite sort mismatch %s vs %s", a.Sort, b.Sort))
	}
	if a.Sort == Bool {
		if a.IsTrue() && b.IsFalse() {
			return cond
		}
		if a.IsFalse() && b.IsTrue() {
			return c.Not(cond)
		}
	}
	if a.Sort == Int && isBV2Nat(a) && isBV2Nat(b) && a.Args[0].Sort == b.Args[0].Sort {
		// ite(c, bv2nat(x), bv2nat(y)) = bv2nat(ite(c, x, y))
		return c.App("bv2nat", Int, c.Ite(cond, a.Args[0], b.Args[0]))
	}
	return c.mk(KApp, "ite", a.Sort, cond, a, b)
}

func (c *Ctx) Eq(a, b *Term) *Term {
	if a == b {
		return c.True()
	}
	if a.Sort != b.Sort {
		panic(fmt.Sprintf("eq sort mismatch %s vs %s (%s, %s)", a.Sort, b.Sort, a, b))
	}
	if a.Kind == KLit && b.Kind == KLit {
		return c.False() // distinct literals (hash-consed)
	}
	if a.Sort == Int && (isBV2Nat(a) || isBV2Nat(b)) {
		// x == bv2nat(e)  <=>  0 <= x < 2^w  and  int2bv(x) == e   (bv2nat is injective with range [0, 2^w))
		if !isBV2Nat(b) {
			a, b = b, a
		}
		e := b.Args[0]
		if isBV2Nat(a) && a.Args[0].Sort == e.Sort {
			return c.Eq(a.Args[0], e)
		}
		if !isBV2Nat(a) {
			w := e.Sort.BVWidth()
			lim := c.BigLit(new(big.Int).Lsh(big.NewInt(1), uint(w)))
			if n, ok := a.IntVal(); ok {
				if n.Sign() < 0 || n.Cmp(new(big.Int).Lsh(big.NewInt(1), uint(w))) >= 0 {
					return c.False()
				}
			}
			x := c.App(fmt.Sprintf("(_ int2bv %d)", w), e.Sort, a)
			return c.And(c.Le(c.IntLit(0), a), c.Lt(a, lim), c.Eq(x, e))
		}
	}
	if a.Sort == Bool {
		if a.IsTrue() {
			return b
		}
		if b.IsTrue() {
			return a
		}
		if a.IsFalse() {
			return c.Not(b)
		}
		if b.IsFalse() {
			return c.Not(a)
		}
	}
	if a.ID > b.ID {
		a, b = b, a
	}
	return c.mk(KApp, "=", Bool, a, b)
}

// EqRaw builds an equation without the bridge rewriting of Eq (used for the defining equation of a leaf's bit-vector).
func (c *Ctx) EqRaw(a, b *Term) *Term {
	if a.ID > b.ID {
		a, b = b, a
	}
	return c.mk(KApp, "=", Bool, a, b)
}

func (c *Ctx) Distinct(as ...*Term) *Term {
	if len(as) < 2 {
		return c.True()
	}
	return c.mk(KApp, "distinct", Bool, as...)
}

// ---- arithmetic

func (c *Ctx) numSort(a, b *Term) Sort {
	if a.Sort != b.Sort {
		panic(fmt.Sprintf("arith sort mismatch %s(%s) vs %s(%s)", a.Sort, a, b.Sort, b))
	}
	return a.Sort
}

func (c *Ctx) Add(a, b *Term) *Term {
	s := c.numSort(a, b)
	if s == Int {
		x, ok1 := a.IntVal()
		y, ok2 := b.IntVal()
		if ok1 && ok2 {
			return c.BigLit(new(big.Int).Add(x, y))
		}
		if ok1 && x.Sign() == 0 {
			return b
		}
		if ok2 && y.Sign() == 0 {
			return a
		}
	}
	return c.mk(KApp, "+", s, a, b)
}
func (c *Ctx) Sub(a, b *Term) *Term {
	s := c.numSort(a, b)
	if s == Int {
		x, ok1 := a.IntVal()
		y, ok2 := b.IntVal()
		if ok1 && ok2 {
			return c.BigLit(new(big.Int).Sub(x, y))
		}
		if ok2 && y.Sign() == 0 {
			return a
		}
		if a == b {
			return c.IntLit(0)
		}
	}
	return c.mk(KApp, "-", s, a, b)
}
func (c *Ctx) Neg(a *Term) *Term {
	if x, ok := a.IntVal(); ok {
		return c.BigLit(new(big.Int).Neg(x))
	}
	return c.mk(KApp, "-", a.Sort, a)
}
func (c *Ctx) Mul(a, b *Term) *Term {
	s := c.numSort(a, b)
	if s == Int {
		x, ok1 := a.IntVal()
		y, ok2 := b.IntVal()
		if ok1 && ok2 {
			return c.BigLit(new(big.Int).Mul(x, y))
		}
		if ok1 && x.IsInt64() && x.Int64() == 1 {
			return b
		}
		if ok2 && y.IsInt64() && y.Int64() == 1 {
			return a
		}
		if (ok1 && x.Sign() == 0) || (ok2 && y.Sign() == 0) {
			return c.IntLit(0)
		}
	}
	return c.mk(KApp, "*", s, a, b)
}

// IDiv / IMod are SMT-LIB euclidean div/mod on Int.
func (c *Ctx) IDiv(a, b *Term) *Term {
	x, ok1 := a.IntVal()
	y, ok2 := b.IntVal()
	if ok1 && ok2 && y.Sign() > 0 {
		q, _ := new(big.Int).DivMod(x, y, new(big.Int))
		return c.BigLit(q)
	}
	if ok2 && y.IsInt64() && y.Int64() == 1 {
		return a
	}
	return c.mk(KApp, "div", Int, a, b)
}
func (c *Ctx) IMod(a, b *Term) *Term {
	x, ok1 := a.IntVal()
	y, ok2 := b.IntVal()
	if ok1 && ok2 && y.Sign() > 0 {
		_, m := new(big.Int).DivMod(x, y, new(big.Int))
		return c.BigLit(m)
	}
	return c.mk(KApp, "mod", Int, a, b)
}
func (c *Ctx) RDiv(a, b *Term) *Term { return c.mk(KApp, "/", Real, a, b) }

func (c *Ctx) cmp(op string, a, b *Term) *Term {
	c.numSort(a, b)
	x, ok1 := a.IntVal()
	y, ok2 := b.IntVal()
	if ok1 && ok2 {
		r := x.Cmp(y)
		switch op {
		case "<":
			return c.BoolLit(r < 0)
		case "<=":
			return c.BoolLit(r <= 0)
		case ">":
			return c.BoolLit(r > 0)
		case ">=":
			return c.BoolLit(r >= 0)
		}
	}
	if a == b {
		return c.BoolLit(op == "<=" || op == ">=")
	}
	return c.mk(KApp, op, Bool, a, b)
}
func (c *Ctx) Lt(a, b *Term) *Term { return c.cmp("<", a, b) }
func (c *Ctx) Le(a, b *Term) *Term { return c.cmp("<=", a, b) }
func (c *Ctx) Gt(a, b *Term) *Term { return c.cmp(">", a, b) }
func (c *Ctx) Ge(a, b *Term) *Term { return c.cmp(">=", a, b) }

func (c *Ctx) ToReal(a *Term) *Term {
	if x, ok := a.IntVal(); ok {
		return c.RealLit(new(big.Rat).SetInt(x))
	}
	return c.mk(KApp, "to_real", Real, a)
}
func (c *Ctx) ToIntFloor(a *Term) *Term { return c.mk(KApp, "to_int", Int, a) }

// ---- arrays

func (c *Ctx) Select(arr, idx *Term) *Term {
	if !arr.Sort.IsArray() {
		panic("select on non-array " + arr.String())
	}
	// read-over-write simplification
	cur := arr
	for cur.Kind == KApp && cur.Op == "store" {
		if cur.Args[1] == idx {
			return cur.Args[2]
		}
		a, ok1 := cur.Args[1].IntVal()
		b, ok2 := idx.IntVal()
		if ok1 && ok2 && a.Cmp(b) != 0 {
			cur = cur.Args[0]
			continue
		}
		break
	}
	return c.mk(KApp, "select", arr.Sort.ArrayElem(), cur, idx)
}
func (c *Ctx) Store(arr, idx, v *Term) *Term {
	if !arr.Sort.IsArray() {
		panic("store on non-array")
	}
	if arr.Sort.ArrayElem() != v.Sort {
		panic(fmt.Sprintf("store sort mismatch: array %s value %s", arr.Sort, v.Sort))
	}
	if arr.Kind == KApp && arr.Op == "store" && arr.Args[1] == idx {
		arr = arr.Args[0]
	}
	return c.mk(KApp, "store", arr.Sort, arr, idx, v)
}

// ---- datatypes

func (c *Ctx) Construct(dt *Datatype, args ...*Term) *Term {
	if len(args) != len(dt.Fields) {
		panic("ctor arity " + string(dt.Name))
	}
	// eta: mk(sel0(x), sel1(x), ...) == x
	if len(args) > 0 {
		var base *Term
		ok := true
		for i, a := range args {
			if a.Kind == KApp && a.Op == dt.Fields[i] && len(a.Args) == 1 && (base == nil || base == a.Args[0]) {
				base = a.Args[0]
			} else {
				ok = false
				break
			}
		}
		if ok && base != nil {
			return base
		}
	}
	for i, a := range args {
		if a.Sort != dt.Sorts[i] {
			panic(fmt.Sprintf("ctor %s field %s sort %s got %s", dt.Ctor, dt.Fields[i], dt.Sorts[i], a.Sort))
		}
	}
	return c.mk(KApp, dt.Ctor, dt.Name, args...)
}

func (c *Ctx) Field(dt *Datatype, i int, x *Term) *Term {
	if x.Sort != dt.Name {
		panic(fmt.Sprintf("field %s of %s applied to %s", dt.Fields[i], dt.Name, x.Sort))
	}
	if x.Kind == KApp && x.Op == dt.Ctor {
		return x.Args[i]
	}
	if x.Kind == KApp && x.Op == "ite" {
		// distribute the selector over ite (memoised, so the result stays linear in the DAG size):
		// every field of a merged struct value becomes its own ite tree
		key := [2]int{x.ID, i}
		if c.fieldMemo == nil {
			c.fieldMemo = map[string]map[[2]int]*Term{}
		}
		m := c.fieldMemo[string(dt.Name)]
		if m == nil {
			m = map[[2]int]*Term{}
			c.fieldMemo[string(dt.Name)] = m
		}
		if r, ok := m[key]; ok {
			return r
		}
		r := c.Ite(x.Args[0], c.Field(dt, i, x.Args[1]), c.Field(dt, i, x.Args[2]))
		m[key] = r
		return r
	}
	return c.mk(KApp, dt.Fields[i], dt.Sorts[i], x)
}

func (c *Ctx) WithField(dt *Datatype, i int, x, v *Term) *Term {
	args := make([]*Term, len(dt.Fields))
	for j := range dt.Fields {
		if j == i {
			args[j] = v
		} else {
			args[j] = c.Field(dt, j, x)
		}
	}
	return c.Construct(dt, args...)
}

// ---- quantifiers

func (c *Ctx) Quant(q string, bound []*Term, body *Term, pats ...[]*Term) *Term {
	if body.IsTrue() && q == "forall" {
		return body
	}
	if body.IsFalse() && q == "exists" {
		return body
	}
	t := c.mk(KQuant, q+fmt.Sprint(boundKey(bound), patKey(pats)), Bool, body)
	t.Op = q
	t.Bound = bound
	t.Pats = pats
	// recompute openness: open iff body has bound vars other than ours
	t.open = hasFreeVar(body, boundSet(bound), map[int]bool{}) || patsOpen(pats, boundSet(bound))
	return t
}

func patsOpen(p [][]*Term, bs map[int]bool) bool {
	for _, ps := range p {
		for _, t := range ps {
			if hasFreeVar(t, bs, map[int]bool{}) {
				return true
			}
		}
	}
	return false
}

func boundSet(b []*Term) map[int]bool {
	m := map[int]bool{}
	for _, v := range b {
		m[v.ID] = true
	}
	return m
}
func boundKey(b []*Term) string {
	var s []string
	for _, v := range b {
		s = append(s, fmt.Sprint(v.ID))
	}
	return strings.Join(s, ";")
}
func patKey(p [][]*Term) string {
	var s []string
	for _, ps := range p {
		for _, t := range ps {
			s = append(s, fmt.Sprint(t.ID))
		}
		s = append(s, "/")
	}
	return strings.Join(s, ";")
}

func hasFreeVar(t *Term, bound map[int]bool, seen map[int]bool) bool {
	if !t.open {
		return false
	}
	if seen[t.ID] {
		return false
	}
	seen[t.ID] = true
	if t.Kind == KVar {
		return !bound[t.ID]
	}
	if t.Kind == KQuant {
		nb := map[int]bool{}
		for k := range bound {
			nb[k] = true
		}
		for _, v := range t.Bound {
			nb[v.ID] = true
		}
		return hasFreeVar(t.Args[0], nb, map[int]bool{})
	}
	for _, a := range t.Args {
		if hasFreeVar(a, bound, seen) {
			return true
		}
	}
	return false
}

// Subst replaces terms (by identity) throughout t.
func (c *Ctx) Subst(t *Term, m map[*Term]*Term) *Term {
	cache := map[*Term]*Term{}
	var rec func(*Term) *Term
	rec = func(t *Term) *Term {
		if r, ok := m[t]; ok {
			return r
		}
		if r, ok := cache[t]; ok {
			return r
		}
		var r *Term
		switch t.Kind {
		case KConst, KLit, KVar:
			r = t
		case KQuant:
			body := rec(t.Args[0])
			var pats [][]*Term
			for _, ps := range t.Pats {
				var np []*Term
				for _, p := range ps {
					np = append(np, rec(p))
				}
				pats = append(pats, np)
			}
			r = c.Quant(t.Op, t.Bound, body, pats...)
		default:
			args := make([]*Term, len(t.Args))
			changed := false
			for i, a := range t.Args {
				args[i] = rec(a)
				if args[i] != a {
					changed = true
				}
			}
			if !changed {
				r = t
			} else {
				r = c.rebuild(t, args)
			}
		}
		cache[t] = r
		return r
	}
	return rec(t)
}

func (c *Ctx) rebuild(t *Term, args []*Term) *Term {
	switch t.Op {
	case "and":
		return c.And(args...)
	case "or":
		return c.Or(args...)
	case "not":
		return c.Not(args[0])
	case "=>":
		return c.Implies(args[0], args[1])
	case "ite":
		return c.Ite(args[0], args[1], args[2])
	case "=":
		return c.Eq(args[0], args[1])
	case "select":
		return c.Select(args[0], args[1])
	case "store":
		return c.Store(args[0], args[1], args[2])
	case "+":
		if len(args) == 2 {
			return c.Add(args[0], args[1])
		}
	case "-":
		if len(args) == 2 {
			return c.Sub(args[0], args[1])
		}
	case "<":
		return c.Lt(args[0], args[1])
	case "<=":
		return c.Le(args[0], args[1])
	case ">":
		return c.Gt(args[0], args[1])
	case ">=":
		return c.Ge(args[0], args[1])
	}
	// datatype selectors/constructors: re-simplify
	if dt, ok := c.Datatypes[t.Sort]; ok && t.Op == dt.Ctor {
		return c.Construct(dt, args...)
	}
	if len(args) == 1 {
		if dt, ok := c.Datatypes[args[0].Sort]; ok {
			for i, f := range dt.Fields {
				if f == t.Op {
					return c.Field(dt, i, args[0])
				}
			}
		}
	}
	return c.mk(t.Kind, t.Op, t.Sort, args...)
}

// ---- printing

func (t *Term) String() string {
	var sb strings.Builder
	t.write(&sb, nil)
	return sb.String()
}

func (t *Term) write(sb *strings.Builder, names map[int]string) {
	if names != nil {
		if n, ok := names[t.ID]; ok {
			sb.WriteString(n)
			return
		}
	}
	switch t.Kind {
	case KConst, KLit, KVar:
		sb.WriteString(t.Op)
	case KQuant:
		sb.WriteString("(" + t.Op + " (")
		for _, v := range t.Bound {
			sb.WriteString("(" + v.Op + " " + string(v.Sort) + ")")
		}
		sb.WriteString(") ")
		if len(t.Pats) > 0 {
			sb.WriteString("(! ")
		}
		t.Args[0].write(sb, names)
		if len(t.Pats) > 0 {
			for _, ps := range t.Pats {
				sb.WriteString(" :pattern (")
				for i, p := range ps {
					if i > 0 {
						sb.WriteByte(' ')
					}
					p.write(sb, names)
				}
				sb.WriteString(")")
			}
			sb.WriteString(")")
		}
		sb.WriteString(")")
	default:
		if len(t.Args) == 0 {
			sb.WriteString(t.Op)
			return
		}
		sb.WriteString("(" + t.Op)
		for _, a := range t.Args {
			sb.WriteByte(' ')
			a.write(sb, names)
		}
		sb.WriteString(")")
	}
}

// Script renders a complete SMT-LIB query: declarations used by the given
// assertions, shared closed subterms as define-funs, then the assertions.
func (c *Ctx) Script(logicHeader string, asserts []*Term, footer string, extra ...*Term) string {
	// collect reachable terms, refcounts
	ref := map[int]int{}
	var order []*Term
	seen := map[int]bool{}
	var visit func(t *Term)
	visit = func(t *Term) {
		ref[t.ID]++
		if seen[t.ID] {
			return
		}
		seen[t.ID] = true
		for _, a := range t.Args {
			visit(a)
		}
		for _, ps := range t.Pats {
			for _, p := range ps {
				visit(p)
			}
		}
		order = append(order, t)
	}
	for _, a := range asserts {
		visit(a)
	}
	nAssertTerms := len(order)
	for _, a := range extra {
		visit(a)
		ref[a.ID] = 0
	}
	_ = nAssertTerms
	usedConst := map[string]bool{}
	usedFun := map[string]bool{}
	usedSort := map[Sort]bool{}
	var noteSort func(s Sort)
	noteSort = func(s Sort) {
		if usedSort[s] {
			return
		}
		usedSort[s] = true
		if s.IsArray() {
			noteSort(s.ArrayElem())
			return
		}
		if dt, ok := c.Datatypes[s]; ok {
			for _, fs := range dt.Sorts {
				noteSort(fs)
			}
		}
	}
	for _, t := range order {
		noteSort(t.Sort)
		switch t.Kind {
		case KConst:
			usedConst[t.Op] = true
		case KApp:
			if _, ok := c.Funs[t.Op]; ok {
				usedFun[t.Op] = true
			}
			if _, ok := c.DefFuns[t.Op]; ok {
				usedFun[t.Op] = true
			}
		case KQuant:
			for _, v := range t.Bound {
				noteSort(v.Sort)
			}
		}
	}
	// close over define-fun deps
	changed := true
	for changed {
		changed = false
		for name := range usedFun {
			if d, ok := c.DefFuns[name]; ok {
				for _, dep := range d.Deps {
					if !usedFun[dep] {
						usedFun[dep] = true
						changed = true
					}
				}
			}
		}
	}
	for name := range usedFun {
		if f, ok := c.Funs[name]; ok {
			for _, s := range f.Args {
				noteSort(s)
			}
			noteSort(f.Res)
		}
	}
	var sb strings.Builder
	sb.WriteString(logicHeader)
	for _, s := range c.sortOrder {
		if usedSort[s] {
			fmt.Fprintf(&sb, "(declare-sort %s 0)\n", s)
		}
	}
	for _, name := range c.dtOrder {
		if !usedSort[name] {
			continue
		}
		dt := c.Datatypes[name]
		fmt.Fprintf(&sb, "(declare-datatypes ((%s 0)) (((%s", dt.Name, dt.Ctor)
		for i, f := range dt.Fields {
			fmt.Fprintf(&sb, " (%s %s)", f, dt.Sorts[i])
		}
		sb.WriteString("))))\n")
	}
	var fnames []string
	for n := range usedFun {
		if _, ok := c.Funs[n]; ok {
			fnames = append(fnames, n)
		}
	}
	sort.Strings(fnames)
	for _, n := range fnames {
		f := c.Funs[n]
		fmt.Fprintf(&sb, "(declare-fun %s (", f.Name)
		for i, s := range f.Args {
			if i > 0 {
				sb.WriteByte(' ')
			}
			sb.WriteString(string(s))
		}
		fmt.Fprintf(&sb, ") %s)\n", f.Res)
	}
	for _, n := range c.defOrder {
		if usedFun[n] {
			sb.WriteString(c.DefFuns[n].Text)
			sb.WriteByte('\n')
		}
	}
	var cnames []string
	for n := range usedConst {
		cnames = append(cnames, n)
	}
	sort.Strings(cnames)
	for _, n := range cnames {
		fmt.Fprintf(&sb, "(declare-const %s %s)\n", n, c.Consts[n])
	}
	// shared closed subterms (terms reachable only from the extra roots are printed inline by the caller)
	extraOnly := map[int]bool{}
	for _, t := range order[nAssertTerms:] {
		extraOnly[t.ID] = true
	}
	names := map[int]string{}
	nseq := 0
	for _, t := range order {
		if t.Kind == KApp && len(t.Args) > 0 && !t.open && ref[t.ID] > 1 && !extraOnly[t.ID] {
			var b strings.Builder
			t.write(&b, names)
			nseq++
			name := fmt.Sprintf("d!%d", nseq)
			fmt.Fprintf(&sb, "(define-fun %s () %s %s)\n", name, t.Sort, b.String())
			names[t.ID] = name
		}
	}
	for _, a := range asserts {
		var b strings.Builder
		a.write(&b, names)
		fmt.Fprintf(&sb, "(assert %s)\n", b.String())
	}
	sb.WriteString(footer)
	return sb.String()
}

// Symbols returns the set of constant names occurring in t.
func Symbols(t *Term, into map[string]bool, seen map[int]bool) {
	if seen[t.ID] {
		return
	}
	seen[t.ID] = true
	if t.Kind == KConst {
		into[t.Op] = true
	}
	for _, a := range t.Args {
		Symbols(a, into, seen)
	}
}

// RenameApp rebuilds t with applications of function `from` renamed to `to`.
func (c *Ctx) RenameApp(t *Term, from, to string) *Term {
	cache := map[*Term]*Term{}
	var rec func(*Term) *Term
	rec = func(t *Term) *Term {
		if r, ok := cache[t]; ok {
			return r
		}
		var r *Term
		switch t.Kind {
		case KConst, KLit, KVar:
			r = t
		case KQuant:
			var pats [][]*Term
			for _, ps := range t.Pats {
				var np []*Term
				for _, p := range ps {
					np = append(np, rec(p))
				}
				pats = append(pats, np)
			}
			r = c.Quant(t.Op, t.Bound, rec(t.Args[0]), pats...)
		default:
			args := make([]*Term, len(t.Args))
			for i, a := range t.Args {
				args[i] = rec(a)
			}
			op := t.Op
			if op == from {
				op = to
			}
			r = c.mk(t.Kind, op, t.Sort, args...)
		}
		cache[t] = r
		return r
	}
	return rec(t)
}

// FunSymbols collects names of applied (non-builtin) function symbols in t.
func FunSymbols(t *Term, into map[string]bool, seen map[int]bool) {
	if seen[t.ID] {
		return
	}
	seen[t.ID] = true
	if t.Kind == KApp && len(t.Args) > 0 {
		into[t.Op] = true
	}
	for _, a := range t.Args {
		FunSymbols(a, into, seen)
	}
	for _, ps := range t.Pats {
		for _, p := range ps {
			FunSymbols(p, into, seen)
		}
	}
}

// HasNonlinear reports whether t contains a product of two non-literal terms.
func HasNonlinear(t *Term, seen map[int]bool) bool {
	if seen[t.ID] {
		return false
	}
	seen[t.ID] = true
	if t.Kind == KApp && t.Op == "*" && len(t.Args) == 2 && t.Args[0].Kind != KLit && t.Args[1].Kind != KLit {
		return true
	}
	if t.Kind == KApp && (t.Op == "div" || t.Op == "mod" || t.Op == "/") && len(t.Args) == 2 && t.Args[1].Kind != KLit {
		return true
	}
	for _, a := range t.Args {
		if HasNonlinear(a, seen) {
			return true
		}
	}
	return false
}

// Linearize replaces nonlinear products and divisions by uninterpreted applications.
func (c *Ctx) Linearize(t *Term) *Term {
	cache := map[*Term]*Term{}
	var rec func(*Term) *Term
	rec = func(t *Term) *Term {
		if r, ok := cache[t]; ok {
			return r
		}
		var r *Term
		switch t.Kind {
		case KConst, KLit, KVar:
			r = t
		case KQuant:
			var pats [][]*Term
			for _, ps := range t.Pats {
				var np []*Term
				for _, p := range ps {
					np = append(np, rec(p))
				}
				pats = append(pats, np)
			}
			r = c.Quant(t.Op, t.Bound, rec(t.Args[0]), pats...)
		default:
			args := make([]*Term, len(t.Args))
			for i, a := range t.Args {
				args[i] = rec(a)
			}
			nl := len(args) == 2 && args[0].Kind != KLit && args[1].Kind != KLit
			switch {
			case t.Op == "*" && nl && t.Sort == Int:
				a, b := args[0], args[1]
				if a.ID > b.ID {
					a, b = b, a
				}
				r = c.mk(KApp, "nl_mul", Int, a, b)
			case t.Op == "*" && nl && t.Sort == Real:
				a, b := args[0], args[1]
				if a.ID > b.ID {
					a, b = b, a
				}
				r = c.mk(KApp, "nl_mulr", Real, a, b)
			case (t.Op == "div" || t.Op == "mod") && len(args) == 2 && args[1].Kind != KLit:
				c.DeclareFun("nl_"+t.Op, []Sort{Int, Int}, Int)
				r = c.mk(KApp, "nl_"+t.Op, Int, args...)
			default:
				r = c.mk(t.Kind, t.Op, t.Sort, args...)
			}
		}
		cache[t] = r
		return r
	}
	return rec(t)
}

// HasQuant reports whether t contains a quantifier (memoised per context).
func (c *Ctx) HasQuant(t *Term) bool {
	if c.quantMemo == nil {
		c.quantMemo = map[int]bool{}
	}
	if v, ok := c.quantMemo[t.ID]; ok {
		return v
	}
	r := t.Kind == KQuant
	if !r {
		for _, a := range t.Args {
			if c.HasQuant(a) {
				r = true
				break
			}
		}
	}
	c.quantMemo[t.ID] = r
	return r
}

// HasVar reports whether t contains a bound variable (memoised per context).
func (c *Ctx) HasVar(t *Term) bool {
	if c.varMemo == nil {
		c.varMemo = map[int]bool{}
	}
	if v, ok := c.varMemo[t.ID]; ok {
		return v
	}
	r := t.Kind == KVar
	if !r {
		for _, a := range t.Args {
			if c.HasVar(a) {
				r = true
				break
			}
		}
	}
	c.varMemo[t.ID] = r
	return r
}

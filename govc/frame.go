package main

import (
	"go/types"
	"sort"

	"govc/smt"
)

type hole struct {
	ref   *smt.Term // nil: whole key allowed
	path  []Step    // path below the top-level field / element
	idx   *smt.Term // for E keys: element index (nil: whole backing array)
	field bool
}

// frameObligations checks that the function changes nothing outside its modifies clauses
// (restricted to objects that existed at entry). Only generated when the contract has a modifies clause.
func (ex *Exec) frameObligations(fr *Frame, out *State, reach *smt.Term, env *CEnv) {
	c := ex.W.C
	var mods []Expr
	have := false
	var mcl *Clause
	for _, cl := range ex.FC.Clauses {
		if cl.Kind == "modifies" && cl.Loop == 0 {
			have = true
			mcl = cl
			mods = append(mods, cl.Mods...)
		}
	}
	if !have {
		return
	}
	allowed := map[string][]hole{}
	envE := ex.envFor(fr, ex.entrySt, ex.entrySt, nil)
	for k, v := range env.vars {
		envE.vars[k] = v
	}
	envE.cl = mcl
	for _, m := range mods {
		if id, ok := m.(*EIdent); ok && id.Name == "*" {
			return
		}
		if call, ok := m.(*ECall); ok {
			if id, ok := call.Fun.(*EIdent); ok && (id.Name == "elems" || id.Name == "allelems") {
				v := envE.eval(call.Args[0])
				sl := v.T.Underlying().(*types.Slice)
				k := ex.keyElem(sl.Elem())
				if id.Name == "allelems" {
					allowed[k.Name] = append(allowed[k.Name], hole{})
				} else {
					arr, _, _, _ := ex.sliceParts(v.Tm)
					allowed[k.Name] = append(allowed[k.Name], hole{ref: arr})
				}
				continue
			}
		}
		a := envE.evalAddr(m)
		if a == nil {
			ex.contractError(mcl, "modifies: not an addressable location")
		}
		switch a.Kind {
		case aStruct:
			if len(a.Path) == 0 {
				st := a.T.Underlying().(*types.Struct)
				for i := 0; i < st.NumFields(); i++ {
					k := ex.keyField(a.T, i)
					allowed[k.Name] = append(allowed[k.Name], hole{ref: a.Root, field: true})
				}
				continue
			}
			k := ex.keyField(a.T, a.Path[0].Field)
			allowed[k.Name] = append(allowed[k.Name], hole{ref: a.Root, path: a.Path[1:], field: true})
		case aElem:
			k := ex.keyElem(a.T)
			allowed[k.Name] = append(allowed[k.Name], hole{ref: a.Root, idx: a.Path[0].Idx, path: a.Path[1:]})
		case aPtr:
			k := ex.keyPtr(a.T)
			allowed[k.Name] = append(allowed[k.Name], hole{ref: a.Root, path: a.Path, field: true})
		case aGlobal:
			k := ex.keyGlobal(a.Global)
			allowed[k.Name] = append(allowed[k.Name], hole{})
		}
	}
	var names []string
	for k := range out.heap {
		names = append(names, k)
	}
	sort.Strings(names)
	for _, name := range names {
		if name[0] == 'L' || name[0] == 'N' || name[0] == 'X' || name[0] == 'Z' {
			continue // ghost logs are not subject to modifies clauses
		}
		cur := out.heap[name]
		k := ex.keys[name]
		base, ok := ex.entrySt.heap[name]
		if !ok {
			base = ex.baseHeap(k, ex.entrySt.epoch)
		}
		if cur == base {
			continue
		}
		holes := allowed[name]
		whole := false
		for _, h := range holes {
			if h.ref == nil {
				whole = true
			}
		}
		if whole {
			continue
		}
		if name[0] == 'G' {
			ex.obligeAlways("frame", name, reach, c.Eq(cur, base), fr.fn.Pos())
			continue
		}
		patched := base
		for _, h := range holes {
			switch {
			case name[0] == 'E' && h.idx == nil:
				patched = c.Store(patched, h.ref, c.Select(cur, h.ref))
			case name[0] == 'E':
				pa := c.Select(patched, h.ref)
				nv := ex.update(c.Select(pa, h.idx), k.T, h.path, ex.descend(c.Select(c.Select(cur, h.ref), h.idx), k.T, h.path))
				patched = c.Store(patched, h.ref, c.Store(pa, h.idx, nv))
			default:
				nv := ex.update(c.Select(patched, h.ref), k.T, h.path, ex.descend(c.Select(cur, h.ref), k.T, h.path))
				patched = c.Store(patched, h.ref, nv)
			}
		}
		p := c.Var("p!f", smt.Int)
		body := c.Implies(c.And(c.Le(c.IntLit(0), p), c.Lt(p, ex.entrySt.brk)), c.Eq(c.Select(cur, p), c.Select(patched, p)))
		ex.obligeAlways("frame", name, reach, c.Quant("forall", []*smt.Term{p}, body), fr.fn.Pos())
	}
}

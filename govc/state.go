package main

import (
	"fmt"
	"go/types"
	"sort"

	"golang.org/x/tools/go/ssa"

	"govc/smt"
)

// Val is a symbolic Go value.
type Val struct {
	T    types.Type
	Tm   *smt.Term // value term; for pointers an Int reference (may be nil when Addr is set)
	Addr *Addr     // symbolic address for pointer values whose target is statically known
	Tup  []Val     // tuple components (multi-value results)
	Tok  *Token    // for string values: the escape-sequence template they were formatted from
}

type addrKind int

const (
	aLocal  addrKind = iota // root is a non-escaping local Alloc
	aStruct                 // root is an Int reference to a heap struct of type T
	aElem                   // root is a backing-array reference; path[0] is the element index; T is the element type
	aPtr                    // root is an Int reference to a non-struct cell of type T
	aGlobal                 // root is a package-level variable
)

type Step struct {
	Field int
	Idx   *smt.Term // non-nil: array/element index step
}

type Addr struct {
	Kind   addrKind
	Alloc  *ssa.Alloc
	Global *ssa.Global
	Root   *smt.Term
	T      types.Type
	Path   []Step
}

func (a *Addr) extend(s Step) *Addr {
	n := *a
	n.Path = append(append([]Step{}, a.Path...), s)
	return &n
}

// State is the mutable memory at a program point.
type State struct {
	locals map[*ssa.Alloc]*smt.Term
	heap   map[string]*smt.Term
	brk    *smt.Term
	epoch  int // bumped when everything is havocked
}

func (s *State) clone() *State {
	n := &State{locals: make(map[*ssa.Alloc]*smt.Term, len(s.locals)), heap: make(map[string]*smt.Term, len(s.heap)), brk: s.brk, epoch: s.epoch}
	for k, v := range s.locals {
		n.locals[k] = v
	}
	for k, v := range s.heap {
		n.heap[k] = v
	}
	return n
}

// HeapKey describes one heap component.
type HeapKey struct {
	Name string
	Sort smt.Sort   // sort of the whole component (array for F/E/P keys, value sort for globals)
	T    types.Type // Go type of one cell's value
}

func (ex *Exec) keyField(st types.Type, field int) *HeapKey {
	s := st.Underlying().(*types.Struct)
	name := "F:" + typeKey(st) + "." + s.Field(field).Name()
	return ex.regKey(name, smt.ArraySort(smt.Int, ex.W.SortOf(s.Field(field).Type())), s.Field(field).Type())
}
func (ex *Exec) keyElem(elem types.Type) *HeapKey {
	// keyed by the Go element type: slices of different element types never share a backing array
	es := ex.W.SortOf(elem)
	name := "E:" + elemTypeKey(elem)
	return ex.regKey(name, smt.ArraySort(smt.Int, smt.ArraySort(smt.Int, es)), elem)
}
func (ex *Exec) keyPtr(t types.Type) *HeapKey {
	es := ex.W.SortOf(t)
	return ex.regKey("P:"+string(es), smt.ArraySort(smt.Int, es), t)
}
func (ex *Exec) keyGlobal(g *ssa.Global) *HeapKey {
	t := g.Type().(*types.Pointer).Elem()
	return ex.regKey("G:"+g.Pkg.Pkg.Name()+"."+g.Name(), ex.W.SortOf(t), t)
}
func (ex *Exec) regKey(name string, s smt.Sort, t types.Type) *HeapKey {
	if k, ok := ex.keys[name]; ok {
		return k
	}
	k := &HeapKey{Name: name, Sort: s, T: t}
	ex.keys[name] = k
	return k
}

// ghostKey: the heap component holding a ghost field (declared `ghost name(p *T) R`), indexed by object reference.
func (ex *Exec) ghostKey(name string, resT types.Type) *HeapKey {
	return ex.regKey("Z:"+name, smt.ArraySort(smt.Int, ex.W.SortOf(resT)), resT)
}

// ghostsOf lists the ghost fields declared for objects of type el (in any package's contracts), sorted by name.
func (ex *Exec) ghostsOf(el types.Type) []*PredDecl {
	var out []*PredDecl
	want := "*" + types.TypeString(el, func(p *types.Package) string { return p.Name() })
	var paths []string
	for k := range ex.Prog.contracts {
		paths = append(paths, k)
	}
	sort.Strings(paths)
	for _, k := range paths {
		pc := ex.Prog.contracts[k]
		var names []string
		for n, pd := range pc.Preds {
			if pd.Kind == "ghost" && len(pd.ParamTypes) == 1 && pd.ParamTypes[0] == want {
				names = append(names, n)
			}
		}
		sort.Strings(names)
		for _, n := range names {
			out = append(out, pc.Preds[n])
		}
	}
	return out
}

// heapGet returns the current version of a heap component, creating the
// base version lazily.
func (ex *Exec) heapGet(st *State, k *HeapKey) *smt.Term {
	t, ok := st.heap[k.Name]
	if !ok {
		t = ex.baseHeap(k, st.epoch)
		st.heap[k.Name] = t
	}
	if ex.readLog != nil {
		ex.readLog[k.Name] = t
	}
	return t
}

func (ex *Exec) baseHeap(k *HeapKey, epoch int) *smt.Term {
	name := fmt.Sprintf("H%d_%s", epoch, smt.Mangle(k.Name))
	return ex.W.C.Const(name, k.Sort)
}

// havocAll forgets every heap component.
func (ex *Exec) havocAll(st *State) {
	ex.epochCtr++
	st.epoch = ex.epochCtr
	st.heap = map[string]*smt.Term{}
	nb := ex.W.C.Fresh("brk", smt.Int)
	ex.assume(ex.W.C.Le(st.brk, nb))
	st.brk = nb
}

func (ex *Exec) havocKey(st *State, k *HeapKey) {
	st.heap[k.Name] = ex.W.C.Fresh("H_"+k.Name, k.Sort)
}

// typeAt returns the Go type designated by an address.
func (ex *Exec) typeAt(a *Addr) types.Type {
	t := a.T
	path := a.Path
	if a.Kind == aElem {
		path = path[1:]
	}
	for _, s := range path {
		if s.Idx != nil {
			t = t.Underlying().(*types.Array).Elem()
		} else {
			t = t.Underlying().(*types.Struct).Field(s.Field).Type()
		}
	}
	return t
}

func (ex *Exec) descend(v *smt.Term, t types.Type, path []Step) *smt.Term {
	c := ex.W.C
	for _, s := range path {
		if s.Idx != nil {
			v = c.Select(v, s.Idx)
			t = t.Underlying().(*types.Array).Elem()
		} else {
			dt := ex.W.DT(ex.W.SortOf(t))
			if dt == nil {
				panic(fmt.Sprintf("descend into opaque struct %s", t))
			}
			v = c.Field(dt, s.Field, v)
			t = t.Underlying().(*types.Struct).Field(s.Field).Type()
		}
	}
	return v
}

func (ex *Exec) update(v *smt.Term, t types.Type, path []Step, nv *smt.Term) *smt.Term {
	if len(path) == 0 {
		return nv
	}
	c := ex.W.C
	s := path[0]
	if s.Idx != nil {
		et := t.Underlying().(*types.Array).Elem()
		return c.Store(v, s.Idx, ex.update(c.Select(v, s.Idx), et, path[1:], nv))
	}
	dt := ex.W.DT(ex.W.SortOf(t))
	ft := t.Underlying().(*types.Struct).Field(s.Field).Type()
	return c.WithField(dt, s.Field, v, ex.update(c.Field(dt, s.Field, v), ft, path[1:], nv))
}

func (ex *Exec) load(st *State, a *Addr) *smt.Term {
	c := ex.W.C
	switch a.Kind {
	case aLocal:
		v, ok := st.locals[a.Alloc]
		if !ok {
			v = ex.W.Zero(a.T)
			st.locals[a.Alloc] = v
		}
		return ex.descend(v, a.T, a.Path)
	case aStruct:
		if len(a.Path) == 0 {
			stt := a.T.Underlying().(*types.Struct)
			dt := ex.W.DT(ex.W.SortOf(a.T))
			if dt == nil {
				return c.Fresh("opaque_struct", ex.W.SortOf(a.T))
			}
			args := make([]*smt.Term, stt.NumFields())
			for i := range args {
				args[i] = c.Select(ex.heapGet(st, ex.keyField(a.T, i)), a.Root)
			}
			return c.Construct(dt, args...)
		}
		f := a.Path[0]
		stt := a.T.Underlying().(*types.Struct)
		v := c.Select(ex.heapGet(st, ex.keyField(a.T, f.Field)), a.Root)
		return ex.descend(v, stt.Field(f.Field).Type(), a.Path[1:])
	case aElem:
		arr := c.Select(ex.heapGet(st, ex.keyElem(a.T)), a.Root)
		v := c.Select(arr, a.Path[0].Idx)
		return ex.descend(v, a.T, a.Path[1:])
	case aPtr:
		v := c.Select(ex.heapGet(st, ex.keyPtr(a.T)), a.Root)
		return ex.descend(v, a.T, a.Path)
	case aGlobal:
		v := ex.heapGet(st, ex.keyGlobal(a.Global))
		if _, isSlice := a.T.Underlying().(*types.Slice); isSlice && len(a.Path) == 0 {
			if n, ok := ex.Prog.GlobalSliceLen(a.Global); ok {
				_, _, ln, cp := ex.sliceParts(v)
				ex.assume(c.And(c.Eq(ln, c.IntLit(n)), c.Eq(cp, c.IntLit(n))))
			}
		}
		return ex.descend(v, a.T, a.Path)
	}
	panic("load: bad addr")
}

func (ex *Exec) store(st *State, a *Addr, nv *smt.Term) {
	c := ex.W.C
	switch a.Kind {
	case aLocal:
		v, ok := st.locals[a.Alloc]
		if !ok {
			v = ex.W.Zero(a.T)
		}
		st.locals[a.Alloc] = ex.update(v, a.T, a.Path, nv)
	case aStruct:
		stt := a.T.Underlying().(*types.Struct)
		if len(a.Path) == 0 {
			dt := ex.W.DT(ex.W.SortOf(a.T))
			if dt == nil {
				return
			}
			for i := 0; i < stt.NumFields(); i++ {
				k := ex.keyField(a.T, i)
				st.heap[k.Name] = c.Store(ex.heapGet(st, k), a.Root, c.Field(dt, i, nv))
			}
			return
		}
		f := a.Path[0]
		k := ex.keyField(a.T, f.Field)
		h := ex.heapGet(st, k)
		old := c.Select(h, a.Root)
		st.heap[k.Name] = c.Store(h, a.Root, ex.update(old, stt.Field(f.Field).Type(), a.Path[1:], nv))
	case aElem:
		k := ex.keyElem(a.T)
		h := ex.heapGet(st, k)
		arr := c.Select(h, a.Root)
		old := c.Select(arr, a.Path[0].Idx)
		st.heap[k.Name] = c.Store(h, a.Root, c.Store(arr, a.Path[0].Idx, ex.update(old, a.T, a.Path[1:], nv)))
	case aPtr:
		k := ex.keyPtr(a.T)
		h := ex.heapGet(st, k)
		old := c.Select(h, a.Root)
		st.heap[k.Name] = c.Store(h, a.Root, ex.update(old, a.T, a.Path, nv))
	case aGlobal:
		k := ex.keyGlobal(a.Global)
		old := ex.heapGet(st, k)
		st.heap[k.Name] = ex.update(old, a.T, a.Path, nv)
	}
}

// mergeStates builds the ite-merge of several (condition, state) pairs.
func (ex *Exec) mergeStates(conds []*smt.Term, sts []*State) *State {
	if len(sts) == 1 {
		return sts[0].clone()
	}
	c := ex.W.C
	out := &State{locals: map[*ssa.Alloc]*smt.Term{}, heap: map[string]*smt.Term{}}
	// epoch: if they differ, materialise every key of every state in a new epoch-less form
	maxEpoch := 0
	for _, s := range sts {
		if s.epoch > maxEpoch {
			maxEpoch = s.epoch
		}
	}
	out.epoch = maxEpoch
	sameEpoch := true
	for _, s := range sts {
		if s.epoch != maxEpoch {
			sameEpoch = false
		}
	}
	keys := map[string]bool{}
	for _, s := range sts {
		for k := range s.heap {
			keys[k] = true
		}
	}
	if !sameEpoch {
		// a key missing in a state of an older epoch denotes that epoch's base version: materialise all known keys
		for name := range ex.keys {
			keys[name] = true
		}
	}
	names := make([]string, 0, len(keys))
	for k := range keys {
		names = append(names, k)
	}
	sort.Strings(names)
	for _, name := range names {
		k := ex.keys[name]
		var acc *smt.Term
		for i := len(sts) - 1; i >= 0; i-- {
			v, ok := sts[i].heap[name]
			if !ok {
				v = ex.baseHeap(k, sts[i].epoch)
			}
			if acc == nil {
				acc = v
			} else {
				acc = c.Ite(conds[i], v, acc)
			}
		}
		out.heap[name] = acc
	}
	if !sameEpoch {
		// keys first touched later must not resolve to the newest epoch's base for states of older epochs;
		// use a fresh epoch whose base versions are unconstrained (sound over-approximation).
		ex.epochCtr++
		out.epoch = ex.epochCtr
	}
	allocs := map[*ssa.Alloc]bool{}
	for _, s := range sts {
		for a := range s.locals {
			allocs[a] = true
		}
	}
	var allocList []*ssa.Alloc
	for a := range allocs {
		allocList = append(allocList, a)
	}
	sort.Slice(allocList, func(i, j int) bool {
		return ex.valKey(allocList[i]) < ex.valKey(allocList[j])
	})
	for _, a := range allocList {
		var acc *smt.Term
		for i := len(sts) - 1; i >= 0; i-- {
			v, ok := sts[i].locals[a]
			if !ok {
				v = ex.W.Zero(a.Type().(*types.Pointer).Elem())
			}
			if acc == nil {
				acc = v
			} else {
				acc = c.Ite(conds[i], v, acc)
			}
		}
		out.locals[a] = acc
	}
	var brk *smt.Term
	for i := len(sts) - 1; i >= 0; i-- {
		if brk == nil {
			brk = sts[i].brk
		} else {
			brk = c.Ite(conds[i], sts[i].brk, brk)
		}
	}
	out.brk = brk
	return out
}

func elemTypeKey(t types.Type) string {
	switch u := t.(type) {
	case *types.Named:
		return typeKey(t)
	case *types.Slice:
		return "[]" + elemTypeKey(u.Elem())
	case *types.Pointer:
		return "*" + elemTypeKey(u.Elem())
	case *types.Array:
		return fmt.Sprintf("[%d]%s", u.Len(), elemTypeKey(u.Elem()))
	case *types.Basic:
		// byte/uint8 and rune/int32 are identical types
		return u.Name()
	}
	return typeKey(t)
}

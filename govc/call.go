package main

import (
	"fmt"
	"go/token"
	"go/types"
	"math/big"
	"os"
	"regexp"
	"sort"
	"strings"

	"golang.org/x/tools/go/ssa"

	"govc/smt"
)

var ratZero = new(big.Rat)

const maxInlineInstrs = 120
const maxInlineDepth = 4

func (ex *Exec) call(fr *Frame, cc *ssa.CallCommon, in ssa.Instruction, st *State, cur *smt.Term, val ssa.Value) (Val, *smt.Term) {
	c := ex.W.C
	var resT types.Type = types.NewTuple()
	if val != nil {
		resT = val.Type()
	} else if sig := cc.Signature(); sig != nil {
		resT = sig.Results()
		if sig.Results().Len() == 1 {
			resT = sig.Results().At(0).Type()
		}
	}
	mkRes := func(name string) Val {
		if t, ok := resT.(*types.Tuple); ok && t.Len() == 0 {
			return Val{T: resT}
		}
		return ex.freshFor(name, resT, st)
	}
	var args []Val
	for _, a := range cc.Args {
		args = append(args, ex.val(fr, a))
	}
	if cc.IsInvoke() {
		recv := ex.val(fr, cc.Value)
		ok := c.Not(c.Eq(recv.Tm, ex.W.zeroOfSort(ex.W.Iface)))
		ex.oblige("nil", "invoke:"+ex.anchor(fr, in, in.Pos()), cur, ok, in.Pos(), fr.prefix)
		cur = c.And(cur, ok)
		if named, ok := cc.Value.Type().(*types.Named); ok && named.Obj().Pkg() != nil {
			key := named.Obj().Pkg().Path() + "." + named.Obj().Name() + "." + cc.Method.Name()
			if key == "io.Writer.Write" && ex.tokensOn() && len(args) == 1 && args[0].Tok != nil {
				// bytes of a known escape sequence written straight to the terminal
				ex.applyToken(st, args[0].Tok)
			}
			if r, ok := ex.externAttrCall(key, append([]Val{recv}, args...), resT); ok {
				return r, cur
			}
			// assumed contract of an interface method outside the module: no effect on modelled state
			if r, ncur, ok := ex.externFuncCall(fr, key, append([]Val{recv}, args...), st, cur, in, func(cur *smt.Term) (Val, *smt.Term) {
				return mkRes("r_" + cc.Method.Name()), cur
			}); ok {
				return r, ncur
			}
		}
		if fc, pc := ex.ifaceContract(cc); fc != nil {
			return ex.ifaceContractCall(fr, cc, fc, pc, recv, args, st, cur, in, mkRes)
		}
		ex.note(ex.Abstr, "interface-call:"+cc.Method.Name())
		if !ex.pureIfaceMethod(cc) {
			ex.havocAll(st)
		}
		return mkRes("r_" + cc.Method.Name()), cur
	}
	if b, ok := cc.Value.(*ssa.Builtin); ok {
		return ex.builtin(fr, b, cc, args, in, st, cur, resT)
	}
	callee := cc.StaticCallee()
	if callee == nil {
		// call of a function value
		fv := ex.val(fr, cc.Value)
		if fv.Tm != nil {
			ok := c.Not(c.Eq(fv.Tm, c.IntLit(0)))
			ex.oblige("nil", "funcvalue:"+ex.anchor(fr, in, in.Pos()), cur, ok, in.Pos(), fr.prefix)
			cur = c.And(cur, ok)
		}
		if ex.isPureField(cc.Value) {
			ex.note(ex.Abstr, "pure-func-field-call")
			return mkRes("r_fn"), cur
		}
		if lg := ex.logFieldOf(cc.Value); lg != "" {
			ex.note(ex.Abstr, "logged-func-field-call:"+lg)
			if len(args) > 0 {
				ex.logAppend(st, lg, ex.box(args[0], st))
			} else {
				ex.logAppend(st, lg, ex.W.zeroOfSort(ex.W.Iface))
			}
			return mkRes("r_fn"), cur
		}
		if fv.Tm != nil {
			if r, ncur, ok := ex.indirectCall(fr, cc, in, fv, args, st, cur, resT, mkRes); ok {
				return r, ncur
			}
		}
		ex.note(ex.Abstr, "func-value-call")
		ex.havocAll(st)
		return mkRes("r_fn"), cur
	}
	return ex.callStatic(fr, callee, cc, in, args, st, cur, resT, mkRes)
}

// callStatic handles a call whose target function is known.
func (ex *Exec) callStatic(fr *Frame, callee *ssa.Function, cc *ssa.CallCommon, in ssa.Instruction, args []Val, st *State, cur *smt.Term, resT types.Type, mkRes func(string) Val) (Val, *smt.Term) {
	c := ex.W.C
	if callee.Signature.Recv() != nil && len(args) > 0 && ex.W.inModule(pkgOf(callee)) && !opaquePkg(pkgOf(callee)) {
		// every module method is verified under "pointer receiver is non-nil": check it at the call site
		if _, isPtr := args[0].T.Underlying().(*types.Pointer); isPtr {
			ok := ex.nonNil(args[0])
			ex.oblige("nil", "recv:"+ex.anchor(fr, in, in.Pos()), cur, ok, in.Pos(), fr.prefix)
			cur = c.And(cur, ok)
		}
	}
	key := ex.Prog.FuncKey(callee)
	if r, ok := ex.externAttrCall(externKey(callee), args, resT); ok {
		// (a module function declared a fixed function of its arguments, e.g. a String method)
		return r, cur
	}
	if kind, _ := sinkKind(callee); kind != "" && ex.tokensOn() && ex.W.inModule(pkgOf(callee)) && len(callee.Blocks) > 0 {
		// an output sink of the module that has a contract of its own (the buffered writer's prologue): first what
		// the contract says the call does besides passing its argument on, then the argument's own sequence
		if pc := ex.Prog.ContractsFor(callee); pc != nil {
			if fc := pc.Funcs[localKey(callee)]; fc != nil && hasSpec(fc) {
				r, cur2 := ex.contractCall(fr, callee, fc, pc, args, st, cur, in, mkRes)
				ex.tokenCall(fr, callee, cc, args, st, func(string) Val { return r })
				return r, cur2
			}
		}
	}
	if r, ok := ex.tokenCall(fr, callee, cc, args, st, mkRes); ok {
		if !ex.W.inModule(pkgOf(callee)) {
			// an output sink outside the module may also have a declared contract (ghost length of a buffer, ...)
			if r2, ncur, ok2 := ex.externFuncCall(fr, externKey(callee), args, st, cur, in, func(cur *smt.Term) (Val, *smt.Term) {
				return r, cur
			}); ok2 {
				return r2, ncur
			}
		}
		return r, cur
	}
	if !ex.W.inModule(pkgOf(callee)) || len(callee.Blocks) == 0 || opaquePkg(pkgOf(callee)) {
		return ex.externalCall(fr, callee, args, st, cur, mkRes, in, cc)
	}
	pc := ex.Prog.ContractsFor(callee)
	var fc *FuncContract
	if pc != nil {
		fc = pc.Funcs[localKey(callee)]
	}
	if os.Getenv("GOVC_DEBUG_CALLS") != "" {
		how := "havoc"
		if fc != nil && hasSpec(fc) {
			how = "contract"
		} else if ex.canInline(callee, pc) {
			how = "inline"
		}
		fmt.Fprintf(os.Stderr, "call %s%s: %s (assumes so far %d)\n", fr.prefix, key, how, len(ex.assumes))
	}
	if fc != nil && hasSpec(fc) {
		return ex.contractCall(fr, callee, fc, pc, args, st, cur, in, mkRes)
	}
	if ex.canInline(callee, pc) {
		sub := ex.newFrame(callee, fr.prefix+"inl("+shortKey(key)+"):", nil, pc)
		sub.entry = st.clone()
		if mc, ok := cc.Value.(*ssa.MakeClosure); ok {
			for _, b := range mc.Bindings {
				sub.free = append(sub.free, ex.val(fr, b))
			}
		}
		ex.inlineStack = append(ex.inlineStack, callee)
		rets, out, reach := ex.runFrame(sub, args, st, cur)
		ex.inlineStack = ex.inlineStack[:len(ex.inlineStack)-1]
		if out == nil {
			// callee never returns (always panics)
			return mkRes("r_noreturn"), c.False()
		}
		*st = *out
		var rv Val
		switch len(rets) {
		case 0:
			rv = Val{T: resT}
		case 1:
			rv = rets[0]
		default:
			rv = Val{T: resT, Tup: rets}
		}
		return rv, reach
	}
	// summary havoc
	ex.note(ex.Abstr, "call-havoc:"+shortKey(key))
	ex.applyCalleeEffects(callee, args, st)
	res := mkRes("r_" + callee.Name())
	if pc != nil {
		for _, pre := range pc.FreshResult {
			if strings.HasPrefix(localKey(callee), pre) {
				res = ex.makeFresh(res, st)
			}
		}
	}
	return res, cur
}

// opaquePkg: module packages treated like external code (no effect on modelled state).
func opaquePkg(p *types.Package) bool {
	return p != nil && strings.HasSuffix(p.Path(), "/vaxis/log")
}

func hasSpec(fc *FuncContract) bool {
	if len(fc.Logs) > 0 {
		return true
	}
	for _, cl := range fc.Clauses {
		switch cl.Kind {
		case "requires", "ensures", "modifies":
			return true
		}
	}
	return false
}

func shortKey(k string) string {
	if i := strings.LastIndex(k, "/"); i >= 0 {
		return k[i+1:]
	}
	return k
}

func pkgOf(f *ssa.Function) *types.Package {
	if f.Pkg != nil {
		return f.Pkg.Pkg
	}
	if f.Object() != nil {
		return f.Object().Pkg()
	}
	if o := f.Origin(); o != nil && o.Pkg != nil {
		return o.Pkg.Pkg
	}
	return nil
}

func (ex *Exec) canInline(callee *ssa.Function, pc *PkgContracts) bool {
	if callee.TypeParams().Len() > 0 || callee.Origin() != nil || callee.Synthetic != "" {
		return false // generic bodies and instantiation wrappers are not executed symbolically
	}
	lk := localKey(callee)
	if pc != nil && pc.NoInline[lk] {
		return false
	}
	if len(ex.inlineStack) >= maxInlineDepth {
		return false
	}
	for _, f := range ex.inlineStack {
		if f == callee {
			return false
		}
	}
	if callee == ex.Fn {
		return false
	}
	if pc != nil && pc.Inline[lk] {
		return true
	}
	n := 0
	for _, b := range callee.Blocks {
		n += len(b.Instrs)
		for _, s := range b.Succs {
			if s.Dominates(b) {
				return false // has a loop
			}
		}
		for _, in := range b.Instrs {
			switch in.(type) {
			case *ssa.Go, *ssa.Select, *ssa.Defer:
				return false
			}
		}
	}
	return n <= maxInlineInstrs
}

func (ex *Exec) pureIfaceMethod(cc *ssa.CallCommon) bool {
	// methods of well-known read-only interfaces
	recvT := cc.Value.Type().String()
	switch recvT {
	case "image.Image", "image/color.Color", "error", "fmt.Stringer":
		return true
	}
	switch cc.Method.Name() {
	case "Error", "String":
		return true
	}
	return false
}

// externalCall models a call into code outside the module: results unconstrained,
// module-typed heap untouched except elements of slice arguments and cells behind pointer arguments.
// externContracts finds a declaration about a function outside the module: the package of the function being
// verified is consulted first, then every other package of the module in path order.
func (ex *Exec) externContracts() []*PkgContracts {
	var out []*PkgContracts
	var paths []string
	for k := range ex.Prog.contracts {
		paths = append(paths, k)
	}
	sort.Strings(paths)
	if ex.Fn != nil {
		if pk := pkgOf(ex.Fn); pk != nil {
			if pc := ex.Prog.contracts[pk.Path()]; pc != nil {
				out = append(out, pc)
			}
		}
	}
	for _, k := range paths {
		if pc := ex.Prog.contracts[k]; pc != nil && (len(out) == 0 || pc != out[0]) {
			out = append(out, pc)
		}
	}
	return out
}

// keepsGhost: some postcondition of the contract has the top-level conjunct g() == old(g()) (g: pen, trow, tcol).
func keepsGhost(fc *FuncContract, g string) bool {
	isPen := func(e Expr) bool {
		c, ok := e.(*ECall)
		if !ok || len(c.Args) != 0 {
			return false
		}
		id, ok := c.Fun.(*EIdent)
		return ok && id.Name == g
	}
	var conj func(e Expr) bool
	conj = func(e Expr) bool {
		b, ok := e.(*EBinary)
		if !ok {
			return false
		}
		if b.Op == "&&" {
			return conj(b.X) || conj(b.Y)
		}
		if b.Op == "==" {
			if o, ok := b.Y.(*EOld); ok && isPen(b.X) && isPen(o.X) {
				return true
			}
		}
		return false
	}
	for _, cl := range fc.Clauses {
		if cl.Kind == "ensures" && conj(cl.E) {
			return true
		}
	}
	return false
}

// externAttrCall: `extern attr` declares the call a fixed function of receiver and arguments.
func (ex *Exec) externAttrCall(key string, args []Val, resT types.Type) (Val, bool) {
	c := ex.W.C
	for _, pc := range ex.externContracts() {
		ufs, ok := pc.ExternAttr[key]
		if !ok {
			continue
		}
		var ts []*smt.Term
		var sorts []smt.Sort
		for _, a := range args {
			tm := a.Tm
			if tm == nil {
				tm = ex.ptrTerm(a)
			}
			ts = append(ts, tm)
			sorts = append(sorts, tm.Sort)
		}
		mk := func(name string, t types.Type) Val {
			so := ex.W.SortOf(t)
			c.DeclareFun("uf_"+name, sorts, so)
			if isUnsigned(t) {
				if ex.unsignedUF == nil {
					ex.unsignedUF = map[string]bool{}
				}
				ex.unsignedUF["uf_"+name] = true
			}
			v := Val{T: t, Tm: c.App("uf_"+name, so, ts...)}
			if wf := ex.W.WF(t, v.Tm, 0); wf != nil {
				ex.assume(wf)
			}
			if pc.ExternNonNil[key] {
				switch t.Underlying().(type) {
				case *types.Interface:
					ex.assume(c.Not(c.Eq(v.Tm, ex.W.zeroOfSort(ex.W.Iface))))
				case *types.Pointer:
					ex.assume(c.Not(c.Eq(v.Tm, c.IntLit(0))))
				}
			}
			return v
		}
		ex.note(ex.Abstr, "extern-attr:"+key)
		if tup, isTup := resT.(*types.Tuple); isTup {
			if tup.Len() != len(ufs) {
				panic(fmt.Sprintf("extern attr %s: %d functions for %d results", key, len(ufs), tup.Len()))
			}
			r := Val{T: resT}
			for i := 0; i < tup.Len(); i++ {
				r.Tup = append(r.Tup, mk(ufs[i], tup.At(i).Type()))
			}
			return r, true
		}
		if len(ufs) != 1 {
			panic(fmt.Sprintf("extern attr %s: %d functions for one result", key, len(ufs)))
		}
		return mk(ufs[0], resT), true
	}
	return Val{}, false
}

// externKey is the name under which a callee is looked up in `extern` declarations: its full name without
// the type arguments of a generic instantiation.
func externKey(callee *ssa.Function) string {
	full := callee.String()
	if i := strings.Index(full, "["); i >= 0 {
		full = full[:i]
	}
	return full
}

var externHdrRe = regexp.MustCompile(`\(([^()]*)\)\s*$`)

func (ex *Exec) externalCall(fr *Frame, callee *ssa.Function, args []Val, st *State, cur *smt.Term, mkRes func(string) Val, in ssa.Instruction, cc *ssa.CallCommon) (Val, *smt.Term) {
	full := externKey(callee)
	var resT types.Type = callee.Signature.Results()
	if callee.Signature.Results().Len() == 1 {
		resT = callee.Signature.Results().At(0).Type()
	}
	if r, ok := ex.externAttrCall(full, args, resT); ok {
		return r, cur
	}
	if r, ncur, ok := ex.externFuncCall(fr, full, args, st, cur, in, func(cur *smt.Term) (Val, *smt.Term) {
		// a declared function has exactly the effects its `modifies` clauses name (none by default)
		return mkRes("r_" + callee.Name()), cur
	}); ok {
		return r, ncur
	}
	res, ncur := ex.externalCallBase(fr, callee, args, st, cur, mkRes, in, cc)
	if full == "fmt.Sprintf" && len(cc.Args) >= 2 && res.Tm != nil {
		// Sprintf on a constant template that is one escape sequence: the structure of the result is known
		if text, ok := ex.constString(cc.Args[0]); ok {
			if sh := parseSeqShape(text); sh.kind != 0 {
				if va, ok := ex.variadicArgs(fr, cc.Args[1]); ok && len(va) == sh.nargs {
					var ts []*smt.Term
					for _, a := range va {
						ts = append(ts, a.Tm)
					}
					for _, f := range ex.W.seqFacts(res.Tm, sh, ts) {
						ex.assume(f)
					}
				}
			}
		}
	}
	return res, ncur
}

// externFuncCall applies an `extern func` declaration (the assumed contract of a function or interface method
// outside the module): requires are checked, base produces the result and the default effects, ensures are assumed.
func (ex *Exec) externFuncCall(fr *Frame, full string, args []Val, st *State, cur *smt.Term, in ssa.Instruction, base func(cur *smt.Term) (Val, *smt.Term)) (Val, *smt.Term, bool) {
	c := ex.W.C
	for _, pc := range ex.externContracts() {
		fc := pc.ExternFuncs[full]
		if fc == nil {
			continue
		}
		// assumed contract of a function outside the module: requires checked, usual effects on the arguments,
		// ensures assumed
		var names []string
		if m := externHdrRe.FindStringSubmatch(fc.Header); m != nil {
			for _, prm := range strings.Split(m[1], ",") {
				if f := strings.Fields(strings.TrimSpace(prm)); len(f) > 0 {
					names = append(names, f[0])
				}
			}
		}
		pre := st.clone()
		mkEnv := func(cs, old *State) *CEnv {
			env := ex.envFor(nil, cs, old, nil)
			if tp := ex.Prog.TypesPkg(pc.PkgPath); tp != nil {
				env.pkg = tp
			}
			env.pc = pc
			for i, n := range names {
				if i < len(args) {
					env.vars[n] = args[i]
				}
			}
			return env
		}
		envPre := mkEnv(st, st)
		nreq := 0
		for _, cl := range fc.Clauses {
			if cl.Kind != "requires" {
				continue
			}
			nreq++
			label := cl.Label
			if label == "" {
				label = fmt.Sprintf("requires%d", nreq)
			}
			goal := ex.evalBool(envPre, cl.E, cl)
			ex.oblige("pre", shortKey(full)+":"+label, cur, goal, in.Pos(), fr.prefix)
			cur = c.And(cur, goal)
		}
		for _, cl := range fc.Clauses {
			if cl.Kind == "modifies" && cl.Loop == 0 {
				for _, m := range cl.Mods {
					ex.havocLvalue(envPre, st, m, cl)
				}
			}
		}
		// sets ghost(x) = e : all right-hand sides are read in the state before the call
		type gset struct {
			k        *HeapKey
			ref, val *smt.Term
		}
		var gsets []gset
		for _, cl := range fc.Clauses {
			if cl.Kind != "sets" {
				continue
			}
			call := cl.Mods[0].(*ECall)
			id, _ := call.Fun.(*EIdent)
			var pd *PredDecl
			if id != nil {
				pd = pc.Preds[id.Name]
				if pd == nil {
					pd = ex.Prog.FindPred(id.Name)
				}
			}
			if pd == nil || pd.Kind != "ghost" {
				ex.contractError(cl, "sets: not a ghost field")
			}
			rt := envPre.specType(pd.ResType)
			tv := envPre.eval(call.Args[0])
			ref := tv.Tm
			if ref == nil {
				ref = ex.ptrTerm(tv)
			}
			val := envPre.eval(cl.E)
			gsets = append(gsets, gset{ex.ghostKey(pd.Name, rt), ref, val.Tm})
		}
		for _, g := range gsets {
			st.heap[g.k.Name] = c.Store(ex.heapGet(st, g.k), g.ref, g.val)
		}
		// logs name: expr -- the call is recorded in a ghost log
		for _, lc := range fc.Logs {
			v := envPre.eval(lc.E)
			ex.logAppend(st, lc.Name, ex.box(v, st))
		}
		res, cur2 := base(cur)
		cur = cur2
		envPost := mkEnv(st, pre)
		var rets []Val
		if len(res.Tup) > 0 {
			rets = res.Tup
		} else if res.Tm != nil || res.Addr != nil {
			rets = []Val{res}
		}
		if envPost.boundNames == nil {
			envPost.boundNames = map[string]bool{}
		}
		for i, r := range rets {
			envPost.vars[fmt.Sprintf("result%d", i)] = r
			envPost.boundNames[fmt.Sprintf("result%d", i)] = true
		}
		if len(rets) == 1 {
			envPost.vars["result"] = rets[0]
			envPost.boundNames["result"] = true
		}
		for _, cl := range fc.Clauses {
			if cl.Kind == "ensures" {
				ex.assume(c.Implies(cur, ex.evalBool(envPost, cl.E, cl)))
			}
		}
		ex.note(ex.Abstr, "extern-contract:"+full)
		return res, cur, true
	}
	return Val{}, cur, false
}

func (ex *Exec) externalCallBase(fr *Frame, callee *ssa.Function, args []Val, st *State, cur *smt.Term, mkRes func(string) Val, in ssa.Instruction, cc *ssa.CallCommon) (Val, *smt.Term) {
	c := ex.W.C
	full := callee.String()
	if r, ok := ex.knownExternal(full, args, st, cur, mkRes); ok {
		return r, cur
	}
	for ai, a := range args {
		if ai < len(cc.Args) && ex.boxedExternal(cc.Args[ai]) {
			continue // interface holding a value of an external type: no module code can run through it
		}
		switch t := a.T.Underlying().(type) {
		case *types.Slice:
			if a.Tm != nil && !readOnlySliceFuncs[full] {
				arr, _, _, _ := ex.sliceParts(a.Tm)
				ex.havocKeyAt(st, ex.keyElem(t.Elem()), arr)
			}
		case *types.Pointer:
			if a.Addr != nil || a.Tm != nil {
				ad := ex.toAddr(a)
				el := ex.typeAt(ad)
				if named, ok := el.(*types.Named); ok && !ex.W.inModule(named.Obj().Pkg()) {
					if _, isStruct := el.Underlying().(*types.Struct); isStruct && ex.W.DT(ex.W.SortOf(el)) == nil {
						continue // opaque external object (mutex, buffer, ...): not modelled
					}
				}
				// cell behind the pointer may be overwritten
				nv := c.Fresh("ext_out", ex.W.SortOf(el))
				ex.assume(ex.W.WF(el, nv, 0))
				ex.store(st, ad, nv)
			}
		case *types.Signature:
			// a callback may run: anything may change
			if _, isFn := a.T.Underlying().(*types.Signature); isFn {
				if deferredCallback[full] {
					ex.note(ex.Abstr, "callback-runs-on-another-goroutine:"+shortKey(full))
					continue
				}
				// a callback given as a function literal or named function: the external code can only
				// cause the effects of that function's body (zero or more times)
				if ai < len(cc.Args) {
					var cb *ssa.Function
					switch f := cc.Args[ai].(type) {
					case *ssa.MakeClosure:
						cb, _ = f.Fn.(*ssa.Function)
					case *ssa.Function:
						cb = f
					}
					if cb != nil && ex.W.inModule(pkgOf(cb)) {
						ex.note(ex.Abstr, "callback-effects-summarised:"+shortKey(full))
						ex.applyModset(st, ex.Prog.ModSummary(cb))
						continue
					}
					if cb != nil && len(cb.FreeVars) == 0 {
						continue // a function declared outside the module cannot touch module state
					}
				}
				ex.note(ex.Abstr, "callback-to-external:"+shortKey(full))
				ex.havocAll(st)
			}
		case *types.Interface:
			// external code may call methods of the dynamic value (e.g. io.Writer.Write on a module type)
			if !pureExternal(full) {
				ex.note(ex.Abstr, "iface-to-external:"+shortKey(full))
				ex.havocAll(st)
			}
		}
	}
	res := mkRes("r_" + callee.Name())
	ex.externalIfaceTags(res)
	return res, cur
}

// externalIfaceTags: an `error` produced by code outside the module does not hold a value of a module type.
func (ex *Exec) externalIfaceTags(v Val) {
	c := ex.W.C
	if len(v.Tup) > 0 {
		for _, e := range v.Tup {
			ex.externalIfaceTags(e)
		}
		return
	}
	if v.Tm == nil || v.T == nil {
		return
	}
	if n, ok := v.T.(*types.Named); ok && n.Obj().Pkg() == nil && n.Obj().Name() == "error" {
		ex.assume(c.Or(c.Eq(v.Tm, ex.W.zeroOfSort(ex.W.Iface)), c.Le(c.IntLit(1000000), c.App("iface_tag", smt.Int, v.Tm))))
	}
}

// boxedExternal: the argument is an interface made from a value whose type is declared outside the module.
func (ex *Exec) boxedExternal(v ssa.Value) bool {
	mi, ok := v.(*ssa.MakeInterface)
	if !ok {
		return false
	}
	t := mi.X.Type()
	if pt, ok := t.(*types.Pointer); ok {
		t = pt.Elem()
	}
	switch tt := t.(type) {
	case *types.Named:
		return !ex.W.inModule(tt.Obj().Pkg())
	case *types.Basic:
		return true
	}
	return false
}

// deferredCallback: external functions that only schedule their callback on another goroutine
// (covered by the "no concurrent mutation during a call" assumption).
var deferredCallback = map[string]bool{"time.AfterFunc": true}

var readOnlySliceFuncs = map[string]bool{
	"bytes.Equal": true, "unicode/utf8.DecodeRune": true, "unicode/utf8.DecodeLastRune": true,
	"unicode/utf8.RuneCount": true, "unicode/utf8.Valid": true, "strings.Join": true,
	"bytes.HasPrefix": true, "bytes.TrimRightFunc": true, "bytes.TrimRight": true,
	"github.com/rivo/uniseg.FirstGraphemeCluster": true, "github.com/rivo/uniseg.FirstLineSegment": true,
	"github.com/rivo/uniseg.Step": true,
}

// pureExternal lists external functions known not to call back into module code through interface arguments
// in a way that mutates module state (formatting/logging read their operands only via String/Error).
func pureExternal(full string) bool {
	for _, p := range []string{"fmt.", "log.", "(*log.", "strings.", "strconv.", "errors.", "(*log/slog", "log/slog.",
		"git.sr.ht/~rockorager/vaxis/log.", "reflect.", "sort.", "(*strings.Builder)", "(*bytes.Buffer)", "os.", "(*os.File)",
		"io.WriteString", "(*sync.", "sync/atomic.", "(*sync/atomic.", "time.", "(time.", "(*time.", "unicode", "math.", "slices.", "image.", "image/color.", "(image", "(*image"} {
		if strings.HasPrefix(full, p) {
			return true
		}
	}
	return false
}

func (ex *Exec) knownExternal(full string, args []Val, st *State, cur *smt.Term, mkRes func(string) Val) (Val, bool) {
	c := ex.W.C
	// pure functions of the standard library whose results must be the same for the same argument:
	// modelled as uninterpreted functions (shared with `ufun` declarations of the same name in contracts)
	if strings.HasPrefix(full, "unicode.Is") || full == "unicode.ToUpper" || full == "unicode.ToLower" {
		r := mkRes("uf")
		if r.Tm != nil && len(args) == 1 && args[0].Tm != nil {
			name := "uf_" + strings.Replace(full, ".", "_", 1)
			ex.W.C.DeclareFun(name, []smt.Sort{args[0].Tm.Sort}, r.Tm.Sort)
			return Val{T: r.T, Tm: c.App(name, r.Tm.Sort, args[0].Tm)}, true
		}
	}
	switch full {
	case "strings.Split", "strings.SplitN", "strings.Fields":
		r := mkRes("split")
		_, _, ln, _ := ex.sliceParts(r.Tm)
		if full != "strings.Fields" {
			ex.assume(c.Le(c.IntLit(1), ln))
			ex.recordDepAssume("strings.Split returns at least one element (sep non-empty)")
		}
		return r, true
	case "unicode/utf8.RuneCountInString", "unicode/utf8.RuneCount":
		r := mkRes("runecount")
		ex.assume(c.Le(c.IntLit(0), r.Tm))
		return r, true
	case "unicode/utf8.DecodeRuneInString", "unicode/utf8.DecodeRune", "unicode/utf8.DecodeLastRuneInString", "unicode/utf8.DecodeLastRune":
		r := mkRes("decoderune")
		ex.assume(c.And(c.Le(c.IntLit(0), r.Tup[1].Tm), c.Le(r.Tup[1].Tm, c.IntLit(4))))
		return r, true
	case "strings.Index", "strings.IndexByte", "strings.IndexRune", "strings.LastIndex":
		r := mkRes("index")
		ls := ex.strLen(args[0].Tm)
		ex.assume(c.Le(c.IntLit(0), ls))
		width := c.IntLit(1)
		if isString(args[1].T) {
			width = ex.strLen(args[1].Tm)
			ex.assume(c.Le(c.IntLit(0), width))
		}
		ex.assume(c.Or(c.Eq(r.Tm, c.IntLit(-1)), c.And(c.Le(c.IntLit(0), r.Tm), c.Le(c.Add(r.Tm, width), ls))))
		ex.recordDepAssume("strings.Index returns -1 or an offset i with i+len(sep) <= len(s)")
		return r, true
	case "github.com/rivo/uniseg.StringWidth":
		r := mkRes("width")
		ex.assume(c.Le(c.IntLit(0), r.Tm))
		ex.recordDepAssume("uniseg widths are >= 0")
		return r, true
	case "github.com/rivo/uniseg.FirstGraphemeClusterInString", "github.com/rivo/uniseg.FirstGraphemeCluster":
		r := mkRes("cluster")
		if len(r.Tup) >= 3 {
			ex.assume(c.Le(c.IntLit(0), r.Tup[2].Tm))
		}
		ex.recordDepAssume("uniseg widths are >= 0")
		return r, true
	case "math.Inf":
		r := mkRes("inf")
		big1 := c.RealLit(new(big.Rat).SetFloat64(1e30))
		ex.assume(c.Ite(c.Ge(args[0].Tm, c.IntLit(0)), c.Gt(r.Tm, big1), c.Lt(r.Tm, c.Neg(big1))))
		ex.recordDepAssume("math.Inf(1) exceeds every value the function compares it with (modelled as > 1e30)")
		return r, true
	case "unicode/utf8.RuneLen":
		r := mkRes("runelen")
		ex.assume(c.And(c.Le(c.IntLit(-1), r.Tm), c.Le(r.Tm, c.IntLit(4))))
		return r, true
	case "(*bytes.Buffer).Len", "(*strings.Builder).Len":
		r := mkRes("buflen")
		ex.assume(c.Le(c.IntLit(0), r.Tm))
		return r, true
	}
	return Val{}, false
}

func (ex *Exec) recordDepAssume(s string) { ex.note(ex.Abstr, "dep-assume: "+s) }

// ---------------------------------------------------------------- builtins

func (ex *Exec) builtin(fr *Frame, b *ssa.Builtin, cc *ssa.CallCommon, args []Val, in ssa.Instruction, st *State, cur *smt.Term, resT types.Type) (Val, *smt.Term) {
	c := ex.W.C
	switch b.Name() {
	case "len", "cap":
		a := args[0]
		switch t := a.T.Underlying().(type) {
		case *types.Slice:
			_, _, ln, cp := ex.sliceParts(a.Tm)
			if b.Name() == "len" {
				return Val{T: resT, Tm: ln}, cur
			}
			return Val{T: resT, Tm: cp}, cur
		case *types.Basic:
			l := ex.strLen(a.Tm)
			ex.assume(c.Le(c.IntLit(0), l))
			return Val{T: resT, Tm: l}, cur
		case *types.Array:
			return Val{T: resT, Tm: c.IntLit(t.Len())}, cur
		case *types.Pointer:
			if at, ok := t.Elem().Underlying().(*types.Array); ok {
				return Val{T: resT, Tm: c.IntLit(at.Len())}, cur
			}
		}
		r := ex.fresh("len", resT)
		ex.assume(c.Le(c.IntLit(0), r.Tm))
		return r, cur
	case "append":
		return ex.appendCall(fr, args, st, cur, resT), cur
	case "copy":
		return ex.copyCall(args, st, resT), cur
	case "min", "max":
		acc := args[0].Tm
		for _, a := range args[1:] {
			if b.Name() == "min" {
				acc = c.Ite(c.Le(acc, a.Tm), acc, a.Tm)
			} else {
				acc = c.Ite(c.Ge(acc, a.Tm), acc, a.Tm)
			}
		}
		return Val{T: resT, Tm: acc}, cur
	case "delete", "print", "println", "close", "clear":
		if b.Name() == "clear" {
			ex.note(ex.Abstr, "clear-builtin")
		}
		return Val{T: resT}, cur
	case "recover":
		return ex.fresh("recover", resT), cur
	}
	ex.note(ex.Abstr, "builtin:"+b.Name())
	if t, ok := resT.(*types.Tuple); ok && t.Len() == 0 {
		return Val{T: resT}, cur
	}
	return ex.freshFor("builtin", resT, st), cur
}

func (ex *Exec) appendCall(fr *Frame, args []Val, st *State, cur *smt.Term, resT types.Type) Val {
	c := ex.W.C
	s := args[0]
	el := s.T.Underlying().(*types.Slice).Elem()
	k := ex.keyElem(el)
	arr, off, ln, cp := ex.sliceParts(s.Tm)
	add := args[1]
	if isString(add.T) {
		// append([]byte, string...)
		n := ex.strLen(add.Tm)
		ex.assume(c.Le(c.IntLit(0), n))
		return ex.appendGeneric(st, k, arr, off, ln, cp, n, nil, resT)
	}
	arr2, off2, n, _ := ex.sliceParts(add.Tm)
	src := c.Select(ex.heapGet(st, k), arr2)
	// common case: constant small number of appended elements
	if nv, ok := n.IntVal(); ok && nv.IsInt64() && nv.Int64() <= 8 {
		cnt := int(nv.Int64())
		newLen := c.Add(ln, n)
		fits := c.Le(newLen, cp)
		fresh := ex.allocRef(st)
		newCap := c.Fresh("newcap", smt.Int)
		ex.assume(c.Le(newLen, newCap))
		rarr := c.Ite(fits, arr, fresh)
		rcap := c.Ite(fits, cp, newCap)
		h := ex.heapGet(st, k)
		content := c.Select(h, arr)
		for i := 0; i < cnt; i++ {
			content = c.Store(content, c.Add(c.Add(off, ln), c.IntLit(int64(i))), c.Select(src, c.Add(off2, c.IntLit(int64(i)))))
		}
		st.heap[k.Name] = c.Store(h, rarr, content)
		return Val{T: resT, Tm: ex.mkSlice(rarr, off, newLen, rcap)}
	}
	return ex.appendGeneric(st, k, arr, off, ln, cp, n, func(i *smt.Term) *smt.Term {
		return c.Select(src, c.Add(off2, i))
	}, resT)
}

// appendGeneric appends n elements whose i-th value is elem(i) (nil: unknown).
func (ex *Exec) appendGeneric(st *State, k *HeapKey, arr, off, ln, cp, n *smt.Term, elem func(*smt.Term) *smt.Term, resT types.Type) Val {
	c := ex.W.C
	newLen := c.Add(ln, n)
	fits := c.Le(newLen, cp)
	fresh := ex.allocRef(st)
	newCap := c.Fresh("newcap", smt.Int)
	ex.assume(c.Le(newLen, newCap))
	rarr := c.Ite(fits, arr, fresh)
	rcap := c.Ite(fits, cp, newCap)
	h := ex.heapGet(st, k)
	old := c.Select(h, arr)
	content := c.Fresh("appended", k.Sort.ArrayElem())
	i := c.Var("i!a", smt.Int)
	keep := c.Implies(c.Or(c.Lt(i, c.Add(off, ln)), c.Ge(i, c.Add(off, newLen))), c.Eq(c.Select(content, i), c.Select(old, i)))
	ex.assume(c.Quant("forall", []*smt.Term{i}, keep, []*smt.Term{c.Select(content, i)}))
	if elem != nil {
		// (stated over the absolute index, so that any read of the new content triggers it)
		j := c.Var("j!a", smt.Int)
		base := c.Add(off, ln)
		set := c.Implies(c.And(c.Le(base, j), c.Lt(j, c.Add(base, n))), c.Eq(c.Select(content, j), elem(c.Sub(j, base))))
		ex.assume(c.Quant("forall", []*smt.Term{j}, set, []*smt.Term{c.Select(content, j)}))
	}
	st.heap[k.Name] = c.Store(h, rarr, content)
	return Val{T: resT, Tm: ex.mkSlice(rarr, off, newLen, rcap)}
}

func (ex *Exec) copyCall(args []Val, st *State, resT types.Type) Val {
	c := ex.W.C
	dst, src := args[0], args[1]
	el := dst.T.Underlying().(*types.Slice).Elem()
	k := ex.keyElem(el)
	darr, doff, dlen, _ := ex.sliceParts(dst.Tm)
	var n *smt.Term
	h := ex.heapGet(st, k)
	old := c.Select(h, darr)
	content := c.Fresh("copied", k.Sort.ArrayElem())
	i := c.Var("i!c", smt.Int)
	if isString(src.T) {
		sl := ex.strLen(src.Tm)
		ex.assume(c.Le(c.IntLit(0), sl))
		n = c.Ite(c.Le(dlen, sl), dlen, sl)
		keep := c.Implies(c.Or(c.Lt(i, doff), c.Ge(i, c.Add(doff, n))), c.Eq(c.Select(content, i), c.Select(old, i)))
		ex.assume(c.Quant("forall", []*smt.Term{i}, keep, []*smt.Term{c.Select(content, i)}))
	} else {
		sarr, soff, slen, _ := ex.sliceParts(src.Tm)
		n = c.Ite(c.Le(dlen, slen), dlen, slen)
		srcC := c.Select(h, sarr)
		body := c.Ite(c.And(c.Le(doff, i), c.Lt(i, c.Add(doff, n))),
			c.Eq(c.Select(content, i), c.Select(srcC, c.Add(soff, c.Sub(i, doff)))),
			c.Eq(c.Select(content, i), c.Select(old, i)))
		ex.assume(c.Quant("forall", []*smt.Term{i}, body, []*smt.Term{c.Select(content, i)}))
	}
	st.heap[k.Name] = c.Store(h, darr, content)
	return Val{T: resT, Tm: n}
}

// ---------------------------------------------------------------- contract calls

func (ex *Exec) contractCall(fr *Frame, callee *ssa.Function, fc *FuncContract, pc *PkgContracts, args []Val, st *State, cur *smt.Term, in ssa.Instruction, mkRes func(string) Val) (Val, *smt.Term) {
	c := ex.W.C
	sub := &Frame{fn: callee, vals: map[ssa.Value]Val{}, fc: fc, pc: pc}
	pre := st.clone()
	mkEnv := func(cs, old *State) *CEnv {
		env := ex.envFor(sub, cs, old, nil)
		for i, p := range callee.Params {
			env.vars[p.Name()] = args[i]
		}
		return env
	}
	envPre := mkEnv(st, st)
	site := shortKey(ex.Prog.FuncKey(callee))
	nreq := 0
	for _, cl := range fc.Clauses {
		if cl.Kind != "requires" {
			continue
		}
		nreq++
		label := cl.Label
		if label == "" {
			label = fmt.Sprintf("requires%d", nreq)
		}
		goal := ex.evalBool(envPre, cl.E, cl)
		ex.oblige("pre", site+":"+label, cur, goal, in.Pos(), fr.prefix)
		cur = c.And(cur, goal)
	}
	// frame
	explicit := false
	for _, cl := range fc.Clauses {
		if cl.Kind == "modifies" && cl.Loop == 0 {
			explicit = true
			for _, m := range cl.Mods {
				ex.havocLvalue(envPre, st, m, cl)
			}
		}
	}
	// a callee whose (proved) postcondition says the pen is what it was: the caller keeps the pen term instead of an
	// unknown pen equated to it (long chains of such equalities are what the solvers are worst at)
	if ex.tokensOn() {
		for _, kk := range []struct {
			name string
			key  *HeapKey
		}{{"pen", ex.penKey()}, {"trow", ex.trowKey()}, {"tcol", ex.tcolKey()}} {
			if keepsGhost(fc, kk.name) {
				kept, key := ex.heapGet(st, kk.key), kk.key
				defer func() { st.heap[key.Name] = kept }()
			}
		}
	}
	if explicit && len(fc.Logs) == 0 {
		// ghost logs are outside modifies clauses: a callee that (transitively) logs changes them
		for _, k := range ex.Prog.ModSummary(callee).sortedKeys() {
			if strings.HasPrefix(k, "L:") || strings.HasPrefix(k, "N:") || strings.HasPrefix(k, "X:") || strings.HasPrefix(k, "Z:") {
				if hk := ex.Prog.KeyInfo(ex, k); hk != nil {
					if strings.HasPrefix(k, "Z:") && fc.OwnGhosts && hk.Sort.IsArray() {
						before := ex.heapGet(st, hk)
						ex.havocKey(st, hk)
						p := c.Var("p!g", smt.Int)
						ex.assume(c.Quant("forall", []*smt.Term{p}, c.Implies(c.And(c.Le(c.IntLit(0), p), c.Lt(p, pre.brk)), c.Eq(c.Select(st.heap[hk.Name], p), c.Select(before, p)))))
						continue
					}
					ex.havocKey(st, hk)
				}
			}
		}
	}
	if !explicit {
		ex.applyCalleeEffects(callee, args, st)
	} else if ex.Prog.ModSummary(callee).allocates {
		nb := c.Fresh("brk", smt.Int)
		ex.assume(c.Le(st.brk, nb))
		st.brk = nb
	}
	for _, lc := range fc.Logs {
		v := envPre.eval(lc.E)
		ex.logAppend(st, lc.Name, ex.box(v, st))
	}
	res := mkRes("r_" + callee.Name())
	envPost := mkEnv(st, pre)
	var rets []Val
	if len(res.Tup) > 0 {
		rets = res.Tup
	} else if res.Tm != nil || res.Addr != nil {
		rets = []Val{res}
	}
	ex.bindResults(envPost, callee, rets)
	nens := 0
	for _, cl := range fc.Clauses {
		if cl.Kind != "ensures" {
			continue
		}
		if ex.FC != nil && ex.FC.Uses != nil {
			if ls, ok := ex.FC.Uses[localKey(callee)]; ok {
				keep := false
				for _, l := range ls {
					keep = keep || l == cl.Label
				}
				if !keep {
					continue
				}
			}
		}
		nens++
		ex.assume(c.Implies(cur, ex.evalBool(envPost, cl.E, cl)))
	}
	if fc.Deterministic != "" && res.Tm != nil {
		var ts []*smt.Term
		var sorts []smt.Sort
		okArgs := true
		for _, a := range args {
			tm := a.Tm
			if tm == nil {
				okArgs = false
				break
			}
			ts = append(ts, tm)
			sorts = append(sorts, tm.Sort)
		}
		if okArgs {
			name := "uf_" + fc.Deterministic
			c.DeclareFun(name, sorts, res.Tm.Sort)
			if isUnsigned(res.T) {
				if ex.unsignedUF == nil {
					ex.unsignedUF = map[string]bool{}
				}
				ex.unsignedUF[name] = true
			}
			ex.assume(c.Implies(cur, c.Eq(res.Tm, c.App(name, res.Tm.Sort, ts...))))
		}
	}
	if nens > 0 && ex.quiet == 0 && ex.noCover == 0 && !cur.IsFalse() {
		// vacuity guard: the callee's postcondition must not make the continuation unreachable
		name := fmt.Sprintf("%s#cover:after-call:%s%s", ex.fnName(), fr.prefix, site)
		n := ex.siteCtr[name]
		ex.siteCtr[name] = n + 1
		if n > 0 {
			name = fmt.Sprintf("%s@%d", name, n+1)
		}
		ex.Obls = append(ex.Obls, &Obligation{Name: name, Kind: "cover", Guard: cur, Goal: c.False(), NAssume: len(ex.assumes), ExpectSat: true, Pos: ex.Prog.Fset.Position(in.Pos())})
	}
	return res, cur
}

// havocLvalue forgets the value of one modifies-clause location.
func (ex *Exec) havocLvalue(env *CEnv, st *State, m Expr, cl *Clause) {
	c := ex.W.C
	if id, ok := m.(*EIdent); ok && id.Name == "*" {
		ex.havocAll(st)
		return
	}
	if call, ok := m.(*ECall); ok {
		if id, ok := call.Fun.(*EIdent); ok {
			switch id.Name {
			case "elems": // all elements of one slice's backing array
				v := env.eval(call.Args[0])
				sl, ok := v.T.Underlying().(*types.Slice)
				if !ok {
					ex.contractError(cl, "elems() needs a slice")
				}
				arr, _, _, _ := ex.sliceParts(v.Tm)
				ex.havocKeyAt(st, ex.keyElem(sl.Elem()), arr)
				return
			case "allelems": // every backing array with this element type (argument: any slice expression of that type)
				v := env.eval(call.Args[0])
				sl, ok := v.T.Underlying().(*types.Slice)
				if !ok {
					ex.contractError(cl, "allelems() needs a slice")
				}
				ex.havocKey(st, ex.keyElem(sl.Elem()))
				return
			}
		}
	}
	a := env.evalAddr(m)
	if a == nil {
		ex.contractError(cl, "modifies: not an addressable location")
	}
	t := ex.typeAt(a)
	nv := c.Fresh("mod", ex.W.SortOf(t))
	ex.assume(ex.W.WF(t, nv, 0))
	ex.boundPtr(Val{T: t, Tm: nv}, st)
	ex.store(st, a, nv)
}

// ---------------------------------------------------------------- mod-set summaries

type Modset struct {
	all       bool
	keys      map[string]bool
	refOnly   map[string][]ssa.Value // key -> loop-invariant base values through which every store goes (loops only)
	refLoads  map[ssa.Value]string   // base value that is a re-read field of an invariant object -> key of that field
	locals    map[*ssa.Alloc]bool
	allocates bool
}

func newModset() *Modset {
	return &Modset{keys: map[string]bool{}, refOnly: map[string][]ssa.Value{}, locals: map[*ssa.Alloc]bool{}}
}

func (m *Modset) sortedKeys() []string {
	var ks []string
	for k := range m.keys {
		ks = append(ks, k)
	}
	sort.Strings(ks)
	return ks
}

func (m *Modset) union(o *Modset) {
	if o.all {
		m.all = true
	}
	for k := range o.keys {
		m.keys[k] = true
		delete(m.refOnly, k)
		m.refOnly[k] = nil
	}
	if o.allocates {
		m.allocates = true
	}
}

func (ex *Exec) applyModset(st *State, ms *Modset) {
	c := ex.W.C
	if ms.all {
		ex.havocAll(st)
		return
	}
	for _, k := range ms.sortedKeys() {
		hk := ex.Prog.KeyInfo(ex, k)
		if hk == nil {
			continue
		}
		ex.havocKey(st, hk)
	}
	if ms.allocates {
		nb := c.Fresh("brk", smt.Int)
		ex.assume(c.Le(st.brk, nb))
		st.brk = nb
	}
}

// applyCalleeEffects havocs everything a (non-inlined) module callee may modify,
// including cells behind interior/local addresses passed as arguments.
func (ex *Exec) applyCalleeEffects(callee *ssa.Function, args []Val, st *State) {
	c := ex.W.C
	ex.Prog.mu.Lock()
	ms, ps := ex.Prog.closureCached(callee)
	ex.Prog.mu.Unlock()
	ex.applyModset(st, ms)
	var idxs []int
	for i := range ps {
		idxs = append(idxs, i)
	}
	sort.Ints(idxs)
	for _, i := range idxs {
		if i >= len(args) || args[i].Addr == nil {
			continue
		}
		a := args[i].Addr
		t := ex.typeAt(a)
		nv := c.Fresh("argout", ex.W.SortOf(t))
		ex.assume(ex.W.WF(t, nv, 0))
		ex.store(st, a, nv)
	}
}

// loopModset computes what the body of a loop may modify.
func (ex *Exec) loopModset(fr *Frame, li *loopInfo) *Modset {
	ms := newModset()
	seen := map[string]bool{}
	var blocks []*ssa.BasicBlock
	for b := range li.blocks {
		blocks = append(blocks, b)
	}
	sort.Slice(blocks, func(i, j int) bool { return blocks[i].Index < blocks[j].Index })
	for _, b := range blocks {
		for _, in := range b.Instrs {
			ex.Prog.instrMods(ex, in, ms, li.blocks, seen, fr.pc)
		}
	}
	// a base that is a re-read field is invariant only if the loop never stores to that field
	for k, bases := range ms.refOnly {
		for _, b := range bases {
			if fk, ok := ms.refLoads[b]; ok && (ms.keys[fk] || ms.all) {
				delete(ms.refOnly, k)
				ms.refOnly[k] = nil
				break
			}
		}
	}
	return ms
}

var _ = token.NoPos

// ---------------------------------------------------------------- ghost logs

func (ex *Exec) logKeys(name string) (*HeapKey, *HeapKey) {
	arr := ex.regKey("L:"+name, smt.ArraySort(smt.Int, ex.W.Iface), nil)
	ln := ex.regKey("N:"+name, smt.Int, nil)
	return arr, ln
}

func (ex *Exec) logLen(st *State, name string) *smt.Term {
	_, ln := ex.logKeys(name)
	t := ex.heapGet(st, ln)
	ex.assume(ex.W.C.Le(ex.W.C.IntLit(0), t))
	return t
}

func (ex *Exec) logAppend(st *State, name string, v *smt.Term) {
	c := ex.W.C
	arr, ln := ex.logKeys(name)
	n := ex.heapGet(st, ln)
	st.heap[arr.Name] = c.Store(ex.heapGet(st, arr), n, v)
	st.heap[ln.Name] = c.Add(n, c.IntLit(1))
}

// makeFresh re-bases a slice or pointer result on a newly allocated reference (assumed exclusive ownership).
func (ex *Exec) makeFresh(v Val, st *State) Val {
	c := ex.W.C
	switch v.T.Underlying().(type) {
	case *types.Slice:
		_, off, ln, cp := ex.sliceParts(v.Tm)
		ref := ex.allocRef(st)
		return Val{T: v.T, Tm: ex.mkSlice(ref, off, ln, cp)}
	case *types.Pointer:
		ref := ex.allocRef(st)
		_ = c
		return Val{T: v.T, Tm: ref}
	}
	return v
}

// indirectCall resolves a call through a func value by case analysis over the module functions whose
// address is taken and whose signature matches; the "none of them" case forgets everything.
func (ex *Exec) indirectCall(fr *Frame, cc *ssa.CallCommon, in ssa.Instruction, fv Val, args []Val, st *State, cur *smt.Term, resT types.Type, mkRes func(string) Val) (Val, *smt.Term, bool) {
	c := ex.W.C
	sig := cc.Signature()
	type cand struct {
		fn    *ssa.Function // function to run
		cond  *smt.Term
		extra []Val // leading arguments (bound receiver)
	}
	ex.W.C.DeclareFun("closure_fn", []smt.Sort{smt.Int}, smt.Int)
	var cands []cand
	seenTarget := map[*ssa.Function]bool{}
	for _, f := range ex.Prog.AddressTaken() {
		if len(f.FreeVars) == 0 {
			if types.Identical(f.Signature, sig) || sameParams(f.Signature, sig) {
				cands = append(cands, cand{fn: f, cond: c.Eq(fv.Tm, c.IntLit(int64(ex.Prog.FuncID(f))))})
			}
			continue
		}
		// bound method wrapper: one free variable (the receiver), same parameters
		if len(f.FreeVars) == 1 && f.Synthetic != "" && sameParams(f.Signature, sig) {
			obj, _ := f.Object().(*types.Func)
			if obj == nil {
				continue
			}
			target := ex.Prog.SSA.FuncValue(obj)
			if target == nil {
				continue
			}
			if seenTarget[target] {
				continue
			}
			seenTarget[target] = true
			ex.W.C.DeclareFun("closure_bind0", []smt.Sort{smt.Int}, smt.Int)
			recv := Val{T: f.FreeVars[0].Type(), Tm: c.App("closure_bind0", smt.Int, fv.Tm)}
			cands = append(cands, cand{fn: target, cond: c.Eq(c.App("closure_fn", smt.Int, fv.Tm), c.IntLit(int64(ex.Prog.FuncID(target)))), extra: []Val{recv}})
		}
	}
	if len(cands) == 0 || len(cands) > 40 {
		return Val{}, nil, false
	}
	var conds []*smt.Term
	var sts []*State
	var rets []Val
	var reaches []*smt.Term
	none := cur
	for _, cd := range cands {
		sub := st.clone()
		g := c.And(cur, cd.cond)
		all := append(append([]Val{}, cd.extra...), args...)
		if len(cd.extra) > 0 {
			ex.boundPtr(cd.extra[0], sub)
		}
		fake := &ssa.CallCommon{Value: cd.fn, Args: nil}
		ex.noCover++ // a candidate may be infeasible at this site
		r, ncur := ex.callStatic(fr, cd.fn, fake, in, all, sub, g, resT, mkRes)
		ex.noCover--
		conds = append(conds, ncur)
		sts = append(sts, sub)
		rets = append(rets, r)
		reaches = append(reaches, ncur)
		none = c.And(none, c.Not(cd.cond))
	}
	// unknown target
	other := st.clone()
	ex.havocAll(other)
	conds = append(conds, none)
	sts = append(sts, other)
	rets = append(rets, mkRes("r_fn"))
	merged := ex.mergeStates(conds, sts)
	*st = *merged
	var res Val
	for k := len(rets) - 1; k >= 0; k-- {
		if k == len(rets)-1 {
			res = rets[k]
		} else if rets[k].Tm != nil || len(rets[k].Tup) > 0 || rets[k].Addr != nil {
			res = ex.iteVal(conds[k], rets[k], res)
		}
	}
	ex.note(ex.Abstr, fmt.Sprintf("indirect-call resolved over %d candidates", len(cands)))
	return res, c.Or(conds...), true
}

func sameParams(a, b *types.Signature) bool {
	if a.Params().Len() != b.Params().Len() || a.Results().Len() != b.Results().Len() {
		return false
	}
	for i := 0; i < a.Params().Len(); i++ {
		if !types.Identical(a.Params().At(i).Type(), b.Params().At(i).Type()) {
			return false
		}
	}
	for i := 0; i < a.Results().Len(); i++ {
		if !types.Identical(a.Results().At(i).Type(), b.Results().At(i).Type()) {
			return false
		}
	}
	return true
}

// ---------------------------------------------------------------- interface contracts

// ifaceContract finds a contract declared on an interface method: func (w Widget) Draw(...) in the
// contract file of the package that declares the interface type.
func (ex *Exec) ifaceContract(cc *ssa.CallCommon) (*FuncContract, *PkgContracts) {
	named, ok := cc.Value.Type().(*types.Named)
	if !ok || named.Obj().Pkg() == nil {
		return nil, nil
	}
	pc := ex.Prog.contracts[named.Obj().Pkg().Path()]
	if pc == nil {
		return nil, nil
	}
	fc := pc.Funcs["("+named.Obj().Name()+")."+cc.Method.Name()]
	if fc == nil || !hasSpec(fc) {
		return nil, nil
	}
	return fc, pc
}

var ifaceHdrRe = regexp.MustCompile(`\)\s*\w+\s*\(([^)]*)\)`)

// ifaceContractCall: requires are checked, everything is forgotten unless the contract has a modifies
// clause, results are fresh, ensures are assumed. Every implementation is separately verified against the
// same clauses (they are repeated on the implementations' own contracts).
func (ex *Exec) ifaceContractCall(fr *Frame, cc *ssa.CallCommon, fc *FuncContract, pc *PkgContracts, recv Val, args []Val, st *State, cur *smt.Term, in ssa.Instruction, mkRes func(string) Val) (Val, *smt.Term) {
	c := ex.W.C
	// parameter names from the contract header
	var names []string
	if m := ifaceHdrRe.FindStringSubmatch(fc.Header); m != nil {
		for _, prm := range strings.Split(m[1], ",") {
			f := strings.Fields(strings.TrimSpace(prm))
			if len(f) > 0 {
				names = append(names, f[0])
			}
		}
	}
	named := cc.Value.Type().(*types.Named)
	sub := &Frame{fn: fr.fn, vals: map[ssa.Value]Val{}, fc: fc, pc: pc}
	pre := st.clone()
	mkEnv := func(cs, old *State) *CEnv {
		env := ex.envFor(nil, cs, old, nil)
		env.pkg = named.Obj().Pkg()
		env.pc = pc
		for i, n := range names {
			if i < len(args) {
				env.vars[n] = args[i]
			}
		}
		return env
	}
	_ = sub
	envPre := mkEnv(st, st)
	site := named.Obj().Name() + "." + cc.Method.Name()
	nreq := 0
	for _, cl := range fc.Clauses {
		if cl.Kind != "requires" {
			continue
		}
		nreq++
		label := cl.Label
		if label == "" {
			label = fmt.Sprintf("requires%d", nreq)
		}
		goal := ex.evalBool(envPre, cl.E, cl)
		ex.oblige("pre", site+":"+label, cur, goal, in.Pos(), fr.prefix)
		cur = c.And(cur, goal)
	}
	explicit := false
	for _, cl := range fc.Clauses {
		if cl.Kind == "modifies" && cl.Loop == 0 {
			explicit = true
			for _, m := range cl.Mods {
				ex.havocLvalue(envPre, st, m, cl)
			}
		}
	}
	if !explicit {
		ex.havocAll(st)
	}
	res := mkRes("r_" + cc.Method.Name())
	envPost := mkEnv(st, pre)
	var rets []Val
	if len(res.Tup) > 0 {
		rets = res.Tup
	} else if res.Tm != nil {
		rets = []Val{res}
	}
	if envPost.boundNames == nil {
		envPost.boundNames = map[string]bool{}
	}
	for i, r := range rets {
		envPost.vars[fmt.Sprintf("result%d", i)] = r
		envPost.boundNames[fmt.Sprintf("result%d", i)] = true
	}
	if len(rets) == 1 {
		envPost.vars["result"] = rets[0]
		envPost.boundNames["result"] = true
	}
	for _, cl := range fc.Clauses {
		if cl.Kind == "ensures" {
			ex.assume(c.Implies(cur, ex.evalBool(envPost, cl.E, cl)))
		}
	}
	ex.note(ex.Abstr, "interface-contract:"+site)
	return res, cur
}

// logFieldOf: the func value was loaded from a struct field declared `logfield Type.Field log`; returns the log name.
func (ex *Exec) logFieldOf(v ssa.Value) string {
	var st types.Type
	var idx int
	switch x := v.(type) {
	case *ssa.UnOp:
		fa, ok := x.X.(*ssa.FieldAddr)
		if !ok {
			return ""
		}
		st = fa.X.Type().Underlying().(*types.Pointer).Elem()
		idx = fa.Field
	case *ssa.Field:
		st = x.X.Type()
		idx = x.Field
	default:
		return ""
	}
	named, ok := st.(*types.Named)
	if !ok || named.Obj().Pkg() == nil {
		return ""
	}
	pc := ex.Prog.contracts[named.Obj().Pkg().Path()]
	if pc == nil || pc.LogFields == nil {
		return ""
	}
	fld := st.Underlying().(*types.Struct).Field(idx).Name()
	return pc.LogFields[named.Obj().Name()+"."+fld]
}

// isPureField: the func value was loaded from a struct field declared `purefield Type.Field`.
func (ex *Exec) isPureField(v ssa.Value) bool {
	var st types.Type
	var idx int
	switch x := v.(type) {
	case *ssa.UnOp:
		fa, ok := x.X.(*ssa.FieldAddr)
		if !ok {
			return false
		}
		st = fa.X.Type().Underlying().(*types.Pointer).Elem()
		idx = fa.Field
	case *ssa.Field:
		st = x.X.Type()
		idx = x.Field
	default:
		return false
	}
	named, ok := st.(*types.Named)
	if !ok || named.Obj().Pkg() == nil {
		return false
	}
	pc := ex.Prog.contracts[named.Obj().Pkg().Path()]
	if pc == nil || pc.PureFields == nil {
		return false
	}
	fld := st.Underlying().(*types.Struct).Field(idx).Name()
	return pc.PureFields[named.Obj().Name()+"."+fld]
}

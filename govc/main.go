package main

import (
	"flag"
	"fmt"
	"os"
	"regexp"
	"runtime/debug"
	"sort"
	"strings"
	"sync"
	"time"

	"golang.org/x/tools/go/ssa"

	"govc/smt"
)

type OblResult struct {
	Obl          *Obligation
	Ex           *Exec
	Res          *SolveResult
	Status       string // discharged | refuted | undecided | cover-ok | cover-fail
	Script       string
	LinScript    string
	SplitScripts []string
	ConjScripts  []string
	ConjLin      []string
}

type FuncResult struct {
	Key     string
	Err     string // contract error / engine failure
	Obls    []*OblResult
	Abstr   []string
	Unsound []string
	NInstr  int
	Assumes []string
}

// verifyFunc generates the obligations of one function.
func verifyFunc(p *Program, key string) (fr *FuncResult, ex *Exec) {
	fr = &FuncResult{Key: key}
	fn := p.FindFunc(key)
	if fn == nil {
		fr.Err = "function not found: " + key
		return fr, nil
	}
	for _, b := range fn.Blocks {
		fr.NInstr += len(b.Instrs)
	}
	pc := p.ContractsFor(fn)
	var fc *FuncContract
	if pc != nil {
		fc = pc.Funcs[localKey(fn)]
	}
	ex = NewExec(p, fn, fc, pc)
	defer func() {
		if r := recover(); r != nil {
			if ce, ok := r.(*ContractError); ok {
				fr.Err = "contract error: " + ce.Msg
			} else {
				fr.Err = fmt.Sprintf("engine failure: %v\n%s", r, debug.Stack())
			}
		}
	}()
	ex.Run()
	for k := range ex.Abstr {
		fr.Abstr = append(fr.Abstr, k)
	}
	for k := range ex.Unsound {
		fr.Unsound = append(fr.Unsound, k)
	}
	sort.Strings(fr.Abstr)
	sort.Strings(fr.Unsound)
	for _, o := range ex.Obls {
		fr.Obls = append(fr.Obls, &OblResult{Obl: o, Ex: ex})
	}
	return fr, ex
}

func NewExec(p *Program, fn *ssa.Function, fc *FuncContract, pc *PkgContracts) *Exec {
	w := NewWorld(p.ModPath)
	w.bv = p.bvTypes
	return &Exec{W: w, Prog: p, Fn: fn, FC: fc, PC: pc, keys: map[string]*HeapKey{}, Abstr: map[string]bool{}, Unsound: map[string]bool{},
		siteCtr: map[string]int{}, bitsDecl: bitsOfAll(p, pc), recDefs: map[string]*recDef{}, recMemo: map[string]string{}, recReads: map[string]map[string]*smt.Term{}}
}

// bitsOfAll: `bits T n` declarations of every package (a type's declaration lives with the type, and code of
// other packages operates on it too); the function's own package wins on a name clash.
func bitsOfAll(p *Program, pc *PkgContracts) map[string]int {
	out := map[string]int{}
	var paths []string
	for k := range p.contracts {
		paths = append(paths, k)
	}
	sort.Strings(paths)
	for _, k := range paths {
		if o := p.contracts[k]; o != nil {
			for n, v := range o.Bits {
				out[n] = v
			}
		}
	}
	for n, v := range bitsOf2(pc) {
		out[n] = v
	}
	return out
}

func bitsOf2(pc *PkgContracts) map[string]int {
	out := map[string]int{}
	if pc != nil {
		for k, v := range pc.Bits {
			out[k] = v
		}
	}
	return out
}

var buildSecs float64

func solveAll(results []*OblResult, timeoutS int, workers int, order []int) {
	// expand multi-part obligations into per-part work items
	var work []*OblResult
	partsOf := map[*OblResult][]*OblResult{}
	for _, r := range results {
		if len(r.Obl.Parts) == 0 {
			work = append(work, r)
			continue
		}
		for _, pt := range r.Obl.Parts {
			pr := &OblResult{Obl: pt, Ex: r.Ex}
			partsOf[r] = append(partsOf[r], pr)
			work = append(work, pr)
		}
	}
	defer func() {
		for r, prs := range partsOf {
			agg := &SolveResult{Status: "unsat"}
			r.Status = "discharged"
			for _, pr := range prs {
				agg.Time += pr.Res.Time
				if pr.Res.Time > agg.MaxPart {
					agg.MaxPart = pr.Res.Time
				}
				agg.Tried = append(agg.Tried, pr.Res.Tried...)
				if os.Getenv("GOVC_DEBUG") != "" {
					fmt.Fprintf(os.Stderr, "  part of %s: %s %.2fs %v\n", r.Obl.Name, pr.Res.Solver, pr.Res.Time, pr.Res.Tried)
				}
				if agg.Solver == "" {
					agg.Solver = pr.Res.Solver
				}
				if pr.Status != "discharged" && r.Status == "discharged" {
					// the first failing part decides, and carries the model for replay
					r.Status = pr.Status
					agg.Status = pr.Res.Status
					agg.Output = pr.Res.Output
					agg.Solver = pr.Res.Solver
					r.Script = pr.Script
					r.Obl = pr.Obl
				}
			}
			if r.Script == "" && len(prs) > 0 {
				r.Script = prs[0].Script
			}
			r.Res = agg
		}
	}()
	results = work
	tb := time.Now()
	defer func() {
		if os.Getenv("GOVC_DEBUG") != "" {
			fmt.Fprintf(os.Stderr, "solveAll: %d work items, script building %.1fs, total %.1fs\n", len(work), buildSecs, time.Since(tb).Seconds())
		}
	}()
	for _, r := range results {
		t1 := time.Now()
		r.Script = r.Ex.buildQuery(r.Obl, nil)
		buildSecs += time.Since(t1).Seconds()
		// fallback scripts (conjunct-wise, disjunct-wise) are built lazily, only when the main query is inconclusive
		if !r.Obl.ExpectSat && strings.Contains(r.Script, "(* ") || strings.Contains(r.Script, "(div ") || strings.Contains(r.Script, "(mod ") {
			seen := map[int]bool{}
			nl := smt.HasNonlinear(r.Obl.Goal, seen) || smt.HasNonlinear(r.Obl.Guard, seen)
			for _, a := range r.Ex.assumes[:r.Obl.NAssume] {
				if nl {
					break
				}
				nl = smt.HasNonlinear(a, seen)
			}
			if nl && !r.Obl.ExpectSat {
				r.LinScript = r.Ex.buildQueryOpt(r.Obl, nil, true)
			}
		}
	}
	var wg sync.WaitGroup
	ch := make(chan *OblResult)
	for i := 0; i < workers; i++ {
		wg.Add(1)
		go func() {
			defer wg.Done()
			for r := range ch {
				if r.Obl.ExpectSat {
					r.Res = Solve(r.Script, 3, []int{0, 1})
				} else {
					r.Res = solveStaged(r, timeoutS, order)
					if r.Res.Linearized {
						r.Script = r.LinScript
					}
					if r.Res.Status != "unsat" && r.Res.Status != "sat" {
						r.Ex.buildMu.Lock()
						if cj := r.Ex.goalConjuncts(r.Obl.Goal); len(cj) > 1 && len(cj) <= 80 {
							for _, g := range cj {
								o2 := *r.Obl
								o2.Goal = g
								r.ConjScripts = append(r.ConjScripts, r.Ex.buildQuery(&o2, nil))
								lin := ""
								if r.LinScript != "" {
									lin = r.Ex.buildQueryOpt(&o2, nil, true)
								}
								r.ConjLin = append(r.ConjLin, lin)
							}
						}
						gs := r.Ex.splitByGuard(r.Obl.Guard, r.Obl.Goal)
						if len(gs) <= 1 {
							gs = r.Ex.splitByIte(r.Obl.Guard, r.Obl.Goal)
						}
						if len(gs) > 1 {
							// one query per (mutually exclusive) incoming branch, with merged values specialised to it
							for _, gg := range gs {
								o2 := *r.Obl
								o2.Guard, o2.Goal = gg[0], gg[1]
								r.SplitScripts = append(r.SplitScripts, r.Ex.buildQuery(&o2, nil))
							}
						}
						r.Ex.buildMu.Unlock()
					}
					if r.Res.Status != "unsat" && r.Res.Status != "sat" && len(r.SplitScripts) > 1 {
						all := true
						tot := r.Res.Time
						tried := append([]string{}, r.Res.Tried...)
						for _, sc := range r.SplitScripts {
							pr := Solve2(sc, "", timeoutS, order)
							tot += pr.Time
							if pr.Time > r.Res.MaxPart {
								r.Res.MaxPart = pr.Time
							}
							if pr.Status != "unsat" {
								all = false
								tried = append(tried, "split:"+strings.Join(pr.Tried, ","))
								r.Res.Tried = tried
								if os.Getenv("GOVC_DEBUG") != "" {
									os.WriteFile("/tmp/govc_split_fail.smt2", []byte(sc), 0o644)
								}
								break
							}
						}
						if all {
							r.Res = &SolveResult{Status: "unsat", Solver: fmt.Sprintf("split(%d)", len(r.SplitScripts)), Time: tot, Tried: tried, MaxPart: r.Res.MaxPart}
						}
						r.SplitScripts = nil
					}
					if r.Res.Status != "unsat" && r.Res.Status != "sat" && len(r.ConjScripts) > 1 {
						// prove the conjuncts of the goal one by one (each is a smaller query)
						all := true
						tot := r.Res.Time
						tried := append([]string{}, r.Res.Tried...)
						for ci, sc := range r.ConjScripts {
							pr := Solve2(sc, r.ConjLin[ci], timeoutS, order)
							tot += pr.Time
							if pr.Status != "unsat" {
								all = false
								tried = append(tried, "conj:"+strings.Join(pr.Tried, ","))
								r.Res.Tried = tried
								if os.Getenv("GOVC_DEBUG") != "" {
									os.WriteFile("/tmp/govc_conj_fail.smt2", []byte(sc), 0o644)
									os.WriteFile("/tmp/govc_conj_fail_lin.smt2", []byte(r.ConjLin[ci]), 0o644)
								}
								break
							}
						}
						if all {
							r.Res = &SolveResult{Status: "unsat", Solver: fmt.Sprintf("conj(%d)", len(r.ConjScripts)), Time: tot, Tried: tried}
						}
					}
					if r.Res.Status != "unsat" && r.Res.Status != "sat" && len(r.SplitScripts) > 1 {
						// case split on the disjuncts of the path condition (each case is a smaller query)
						all := true
						tot := r.Res.Time
						tried := append([]string{}, r.Res.Tried...)
						for _, sc := range r.SplitScripts {
							pr := Solve2(sc, "", timeoutS, order)
							tot += pr.Time
							tried = append(tried, "split:"+strings.Join(pr.Tried, ","))
							if pr.Status != "unsat" {
								all = false
								if os.Getenv("GOVC_DEBUG") != "" {
									os.WriteFile("/tmp/govc_split_fail.smt2", []byte(sc), 0o644)
								}
								break
							}
						}
						if all {
							r.Res = &SolveResult{Status: "unsat", Solver: "split(" + fmt.Sprint(len(r.SplitScripts)) + ")", Time: tot, Tried: tried}
						}
					}
				}
				if !r.Obl.ExpectSat && r.Res.Status != "unsat" {
					// the queries so far leave out hypotheses that bound unmentioned terms: anything but "unsat" is
					// re-examined on the full query (a refutation must hold under all hypotheses)
					r.Ex.buildMu.Lock()
					r.Ex.noSlice = true
					full := r.Ex.buildQuery(r.Obl, nil)
					r.Ex.noSlice = false
					r.Ex.buildMu.Unlock()
					if full != r.Script {
						res2 := Solve2race(full, "", timeoutS, order)
						tried := append(append([]string{}, r.Res.Tried...), "full:"+strings.Join(res2.Tried, ","))
						res2.Time += r.Res.Time
						if res2.Status != "sat" && res2.Status != "unsat" {
							res2.Status = "unknown"
							if r.Res.Status == "timeout" {
								res2.Status = "timeout"
							}
						}
						res2.Tried = tried
						r.Res = res2
						r.Script = full
					}
				}
				switch {
				case r.Obl.ExpectSat && r.Res.Status == "sat":
					r.Status = "cover-ok"
				case r.Obl.ExpectSat && r.Res.Status == "unsat":
					r.Status = "cover-fail"
				case r.Obl.ExpectSat:
					r.Status = "cover-unknown"
				case r.Res.Status == "unsat":
					r.Status = "discharged"
				case r.Res.Status == "sat":
					r.Status = "refuted"
				default:
					r.Status = "undecided"
				}
			}
		}()
	}
	for _, r := range results {
		ch <- r
	}
	close(ch)
	wg.Wait()
}

// solveStaged: one second on the exact query (and on its linearisation); then, if the goal is a conjunction or a
// bit-vector equation, conjunct by conjunct; then the race of all solvers on the exact and linearised queries.
func solveStaged(r *OblResult, timeoutS int, order []int) *SolveResult {
	// obligations after a cut: first without the hypotheses that tie the path to its history before the cut
	r.Ex.buildMu.Lock()
	hasLink := !r.Ex.linkOverflow && len(r.Ex.linkBit) > 0 && r.Ex.linksIn(r.Obl.Guard) != 0 && !(r.Ex.FC != nil && r.Ex.FC.NoLocal)
	r.Ex.buildMu.Unlock()
	var pre, firstDone *SolveResult
	if hasLink {
		r.Ex.buildMu.Lock()
		r.Ex.dropLinks = true
		local := r.Ex.buildQuery(r.Obl, nil)
		var conj []string
		var conjCoi [][]string
		if cj := r.Ex.goalConjuncts(r.Obl.Goal); len(cj) > 1 && len(cj) <= 80 {
			for _, g := range cj {
				o2 := *r.Obl
				o2.Goal = g
				conj = append(conj, r.Ex.buildQuery(&o2, nil))
				var cs []string
				for rounds := 1; rounds <= 3; rounds++ {
					r.Ex.coi = rounds
					cs = append(cs, r.Ex.buildQuery(&o2, nil))
				}
				r.Ex.coi = 0
				conjCoi = append(conjCoi, cs)
			}
		}
		r.Ex.dropLinks = false
		r.Ex.buildMu.Unlock()
		// the local and the full query side by side for the first second: whichever is refuted first decides
		fullCh := make(chan *SolveResult, 1)
		go func() { fullCh <- Solve2first(r.Script, r.LinScript, order) }()
		pre = Solve2first(local, "", order)
		if pre.Status == "unsat" {
			pre.Solver = "local:" + pre.Solver
			return pre
		}
		early := <-fullCh
		if early.Status == "unsat" || early.Status == "sat" {
			early.Tried = append(append([]string{}, pre.Tried...), early.Tried...)
			return early
		}
		pre.Status = "unknown"
		firstDone = early
		if len(conj) <= 1 {
			// a goal that is not a conjunction: the local query once more, with all solvers and more time
			pr := Solve2race(local, "", 6, order)
			pre.Time += pr.Time
			pre.Tried = append(pre.Tried, "local:"+strings.Join(pr.Tried, ","))
			if pr.Status == "unsat" {
				return &SolveResult{Status: "unsat", Solver: "local:" + pr.Solver, Time: pre.Time, Tried: pre.Tried, MaxPart: pr.Time}
			}
		}
		if len(conj) > 1 {
			// conjunct by conjunct on the local query, one second each: where the cut or the invariants carry what is
			// needed these are tiny queries; the first that is not decided ends the attempt
			all := true
			maxPart := 0.0
			for ci, sc := range conj {
				// first the cone of influence of the conjunct (a fraction of the hypotheses), then all of them
				var pr *SolveResult
				tc := 0.0
				for k, cq := range conjCoi[ci] {
					if k > 0 && cq == conjCoi[ci][k-1] {
						continue
					}
					pr = Solve2race(cq, "", 1, order[:1])
					tc += pr.Time
					if pr.Status == "unsat" {
						break
					}
				}
				pr.Time = tc
				if pr.Status != "unsat" {
					t1 := pr.Time
					pr = Solve2race(sc, "", 8, order)
					pr.Time += t1
				} else {
					pr.Solver = "coi:" + pr.Solver
				}
				pre.Time += pr.Time
				if os.Getenv("GOVC_DEBUG") != "" {
					fmt.Fprintf(os.Stderr, "  local part of %s: %s by %s in %.2fs\n", r.Obl.Name, pr.Status, pr.Solver, pr.Time)
					os.WriteFile("/tmp/govc_local_part.smt2", []byte(sc), 0o644)
				}
				if pr.Time > maxPart {
					maxPart = pr.Time
				}
				if pr.Status != "unsat" {
					all = false
					pre.Tried = append(pre.Tried, "local-conj:"+strings.Join(pr.Tried, ","))
					break
				}
			}
			if all {
				return &SolveResult{Status: "unsat", Solver: fmt.Sprintf("local:conj(%d)", len(conj)), Time: pre.Time, Tried: pre.Tried, MaxPart: maxPart}
			}
		}
	}
	first := firstDone
	if first == nil {
		first = Solve2first(r.Script, r.LinScript, order)
	}
	if pre != nil {
		first.Tried = append(append([]string{}, pre.Tried...), first.Tried...)
		first.Time += pre.Time
	}
	if first.Status == "unsat" || first.Status == "sat" {
		return first
	}
	// goal conjunct by conjunct (bit by bit for bit-vector equations), each a smaller search
	r.Ex.buildMu.Lock()
	var conj, conjLin []string
	if cj := r.Ex.goalConjuncts(r.Obl.Goal); len(cj) > 1 && len(cj) <= 80 {
		for _, g := range cj {
			o2 := *r.Obl
			o2.Goal = g
			conj = append(conj, r.Ex.buildQuery(&o2, nil))
			lin := ""
			if r.LinScript != "" {
				lin = r.Ex.buildQueryOpt(&o2, nil, true)
			}
			conjLin = append(conjLin, lin)
		}
	}
	r.Ex.buildMu.Unlock()
	if len(conj) > 1 {
		per := 8
		if timeoutS < per {
			per = timeoutS
		}
		all := true
		tot, maxPart := first.Time, 0.0
		tried := append([]string{}, first.Tried...)
		for ci, sc := range conj {
			pr := Solve2race(sc, conjLin[ci], per, order)
			tot += pr.Time
			if os.Getenv("GOVC_DEBUG") != "" {
				fmt.Fprintf(os.Stderr, "  conj part %d/%d of %s: %s by %s in %.2fs\n", ci+1, len(conj), r.Obl.Name, pr.Status, pr.Solver, pr.Time)
				os.WriteFile(fmt.Sprintf("/tmp/govc_part_%d.smt2", ci+1), []byte(sc), 0o644)
			}
			if pr.Time > maxPart {
				maxPart = pr.Time
			}
			if pr.Status == "sat" && !pr.Linearized {
				// a conjunct of the goal is refutable under all the assumptions: so is the goal
				return &SolveResult{Status: "sat", Solver: pr.Solver, Time: tot, Tried: append(tried, "conj:"+strings.Join(pr.Tried, ",")), Output: pr.Output}
			}
			if pr.Status != "unsat" {
				all = false
				tried = append(tried, "conj:"+strings.Join(pr.Tried, ","))
				break
			}
		}
		first.Tried = tried
		first.Time = tot
		if all {
			return &SolveResult{Status: "unsat", Solver: fmt.Sprintf("conj(%d)", len(conj)), Time: tot, Tried: tried, MaxPart: maxPart}
		}
	}
	rest := Solve2race(r.Script, r.LinScript, timeoutS, order)
	rest.Tried = append(first.Tried, rest.Tried...)
	if os.Getenv("GOVC_DEBUG") != "" {
		fmt.Fprintf(os.Stderr, "  final race of %s: %s by %s in %.2fs %v\n", r.Obl.Name, rest.Status, rest.Solver, rest.Time, rest.Tried[len(first.Tried):])
	}
	if rest.Status == "unsat" {
		// (what is compared with the claim limit is the deciding query's own time, not the time spent on the cheaper
		// variants tried before it)
		rest.MaxPart = rest.Time
	}
	rest.Time += first.Time
	return rest
}

func main() {
	if f := os.Getenv("GOVC_TRACE"); f != "" {
		out, _ := os.Create(f)
		smt.TraceCreate = func(id int, key string) { fmt.Fprintf(out, "%d %s\n", id, key) }
	}
	if len(os.Args) < 2 {
		fmt.Fprintln(os.Stderr, "usage: govc verify|check|list ...")
		os.Exit(2)
	}
	switch os.Args[1] {
	case "verify":
		cmdVerify(os.Args[2:])
	case "check":
		cmdCheck(os.Args[2:])
	default:
		fmt.Fprintln(os.Stderr, "unknown command", os.Args[1])
		os.Exit(2)
	}
}

func cmdVerify(args []string) {
	fs := flag.NewFlagSet("verify", flag.ExitOnError)
	repo := fs.String("repo", "/repo", "repository")
	timeout := fs.Int("timeout", 10, "per-obligation timeout (s)")
	dump := fs.String("dump", "", "regexp of obligation names whose SMT script is printed")
	only := fs.String("only", "", "regexp of obligation names to solve")
	workers := fs.Int("j", 8, "parallel solver processes")
	showAssume := fs.Bool("abstr", false, "print abstraction notes")
	fs.Parse(args)
	t0 := time.Now()
	p, err := LoadProgram(*repo)
	if err != nil {
		fmt.Fprintln(os.Stderr, err)
		os.Exit(2)
	}
	fmt.Printf("loaded in %.1fs\n", time.Since(t0).Seconds())
	var all []*OblResult
	var frs []*FuncResult
	for _, key := range fs.Args() {
		fr, _ := verifyFunc(p, key)
		frs = append(frs, fr)
		if fr.Err != "" {
			fmt.Printf("ERROR %s: %s\n", key, fr.Err)
			continue
		}
		for _, o := range fr.Obls {
			if *only != "" && !regexp.MustCompile(*only).MatchString(o.Obl.Name) {
				continue
			}
			all = append(all, o)
		}
	}
	solveAll(all, *timeout, *workers, []int{0, 1, 2})
	for _, r := range all {
		fmt.Printf("%-12s %-7s %5.2fs  %s\n", r.Status, r.Res.Solver, r.Res.Time, r.Obl.Name)
		if r.Status != "discharged" && r.Status != "cover-ok" {
			fmt.Printf("             at %s  tried %s\n", r.Obl.Pos, strings.Join(r.Res.Tried, " "))
			if r.Obl.Note != "" {
				fmt.Printf("             note: %s\n", r.Obl.Note)
			}
		}
		if *dump != "" && regexp.MustCompile(*dump).MatchString(r.Obl.Name) {
			fmt.Println(r.Script)
			fmt.Println(r.Res.Output)
			if r.Res.Status == "sat" {
				st, out, _ := runSolver(solvers[1], strings.Replace(r.Script, "(check-sat)", "(check-sat)\n(get-model)", 1), 10)
				fmt.Println(st, out)
			}
		}
	}
	if *showAssume {
		for _, key := range fs.Args() {
			if fn := p.FindFunc(key); fn != nil {
				for h, li := range findLoops(fn) {
					fmt.Printf("%s: loop %d header block %d at %s\n", key, li.ordinal, h.Index, p.Fset.Position(loopPos(h)))
				}
			}
		}
		for _, fr := range frs {
			fmt.Printf("%s: abstr=%v unsound=%v\n", fr.Key, fr.Abstr, fr.Unsound)
		}
	}
}

package main

import (
	"fmt"
	"go/types"
	"math/big"
	"strings"

	"govc/smt"
)

// World holds everything shared by all function verifications of one run.
type World struct {
	C        *smt.Ctx
	ModPath  string // module path of the code under verification
	sortMemo map[types.Type]smt.Sort
	dtOf     map[smt.Sort]*smt.Datatype
	structOf map[smt.Sort]*types.Struct
	SliceDT  *smt.Datatype
	Str      smt.Sort
	Iface    smt.Sort
	seqUsed  bool // a specification mentions seqkind/seqfinal/...: literal escape sequences get their structure facts
	strLits  map[string]*smt.Term
	strOrder []string
	typeIDs  map[string]int
	typeOfID map[string]types.Type
	zeroMemo map[smt.Sort]*smt.Term
	bv       map[types.Object]int // named unsigned types modelled as bit-vectors
}

// BVWidth reports whether t is modelled as a bit-vector and its width.
// Disabled: a bit-vector field inside a datatype makes z3 time out on every quantified obligation that mentions
// the datatype (finite sort, model-based instantiation), so `bvtype` types are stored as integers and only
// their bit operations go through bit-vectors (BridgeWidth).
func (w *World) BVWidth(t types.Type) (int, bool) {
	return 0, false
}

// BridgeWidth: width of a `bvtype` type, whose & | ^ &^ are computed in bit-vectors of exactly the type's width.
func (w *World) BridgeWidth(t types.Type) (int, bool) {
	if n, ok := t.(*types.Named); ok && w.bv != nil {
		if bw, ok := w.bv[n.Obj()]; ok {
			return bw, true
		}
	}
	return 0, false
}

func NewWorld(modPath string) *World {
	w := &World{C: smt.NewCtx(), ModPath: modPath, sortMemo: map[types.Type]smt.Sort{},
		dtOf: map[smt.Sort]*smt.Datatype{}, structOf: map[smt.Sort]*types.Struct{}, strLits: map[string]*smt.Term{},
		typeIDs: map[string]int{}, typeOfID: map[string]types.Type{}, zeroMemo: map[smt.Sort]*smt.Term{}}
	w.Str = "Str"
	w.Iface = "Iface"
	w.C.DeclareSort(w.Str)
	w.C.DeclareSort(w.Iface)
	w.SliceDT = &smt.Datatype{Name: "Slice", Ctor: "mk_slice",
		Fields: []string{"s_arr", "s_off", "s_len", "s_cap"}, Sorts: []smt.Sort{smt.Int, smt.Int, smt.Int, smt.Int}}
	w.C.DeclareDatatype(w.SliceDT)
	w.dtOf["Slice"] = w.SliceDT
	w.C.DeclareFun("str_len", []smt.Sort{w.Str}, smt.Int)
	w.C.DeclareFun("str_at", []smt.Sort{w.Str, smt.Int}, smt.Int)
	w.C.DeclareFun("str_cat", []smt.Sort{w.Str, w.Str}, w.Str)
	w.C.DeclareFun("str_sub", []smt.Sort{w.Str, smt.Int, smt.Int}, w.Str)
	w.C.DeclareFun("str_of_rune", []smt.Sort{smt.Int}, w.Str)
	w.C.DeclareFun("iface_tag", []smt.Sort{w.Iface}, smt.Int)
	return w
}

func (w *World) inModule(pkg *types.Package) bool {
	return pkg != nil && (pkg.Path() == w.ModPath || strings.HasPrefix(pkg.Path(), w.ModPath+"/"))
}

// typeKey gives a stable short name for a (named or anonymous) type.
func typeKey(t types.Type) string {
	switch tt := t.(type) {
	case *types.Named:
		obj := tt.Obj()
		if obj.Pkg() == nil {
			return obj.Name()
		}
		p := obj.Pkg().Path()
		if i := strings.LastIndex(p, "/"); i >= 0 {
			// keep last two path elements for uniqueness without the host name
			rest := p[:i]
			if j := strings.LastIndex(rest, "/"); j >= 0 {
				p = p[j+1:]
			}
		}
		return p + "." + obj.Name()
	}
	return types.TypeString(t, func(p *types.Package) string { return p.Name() })
}

func (w *World) structAllExported(st *types.Struct) bool {
	for i := 0; i < st.NumFields(); i++ {
		if !st.Field(i).Exported() {
			return false
		}
	}
	return true
}

// SortOf maps a Go type to its SMT sort.
func (w *World) SortOf(t types.Type) smt.Sort {
	if s, ok := w.sortMemo[t]; ok {
		return s
	}
	s := w.sortOf(t)
	w.sortMemo[t] = s
	return s
}

func (w *World) sortOf(t types.Type) smt.Sort {
	if bw, ok := w.BVWidth(t); ok {
		return smt.BVSort(bw)
	}
	switch u := t.Underlying().(type) {
	case *types.Basic:
		switch {
		case u.Info()&types.IsBoolean != 0:
			return smt.Bool
		case u.Info()&types.IsInteger != 0:
			return smt.Int
		case u.Info()&types.IsFloat != 0:
			return smt.Real
		case u.Info()&types.IsString != 0:
			return w.Str
		case u.Kind() == types.UnsafePointer:
			return smt.Int
		case u.Kind() == types.UntypedNil:
			return smt.Int
		}
		return w.opaque("Basic_" + u.Name())
	case *types.Pointer, *types.Map, *types.Chan, *types.Signature:
		return smt.Int
	case *types.Slice:
		return "Slice"
	case *types.Array:
		return smt.ArraySort(smt.Int, w.SortOf(u.Elem()))
	case *types.Interface:
		return w.Iface
	case *types.Struct:
		named, isNamed := t.(*types.Named)
		if isNamed && !w.inModule(named.Obj().Pkg()) && !w.structAllExported(u) {
			return w.opaque("Ext_" + smt.Mangle(typeKey(t)))
		}
		name := smt.Sort("S_" + smt.Mangle(typeKey(t)))
		if _, ok := w.dtOf[name]; ok {
			return name
		}
		dt := &smt.Datatype{Name: name, Ctor: "mk_" + string(name)}
		w.dtOf[name] = dt // pre-register (recursion through pointers is via Int)
		w.structOf[name] = u
		for i := 0; i < u.NumFields(); i++ {
			f := u.Field(i)
			dt.Fields = append(dt.Fields, fmt.Sprintf("%s_%s", name, f.Name()))
			dt.Sorts = append(dt.Sorts, w.SortOf(f.Type()))
		}
		w.C.DeclareDatatype(dt)
		return name
	case *types.Tuple:
		return w.opaque("Tuple")
	}
	return w.opaque("T_" + smt.Mangle(typeKey(t)))
}

func (w *World) opaque(name string) smt.Sort {
	s := smt.Sort(name)
	w.C.DeclareSort(s)
	return s
}

func (w *World) DT(s smt.Sort) *smt.Datatype { return w.dtOf[s] }

// Zero returns the zero value term of a Go type.
func (w *World) Zero(t types.Type) *smt.Term {
	s := w.SortOf(t)
	return w.zeroOfSort(s)
}

func (w *World) zeroOfSort(s smt.Sort) *smt.Term {
	if z, ok := w.zeroMemo[s]; ok {
		return z
	}
	var z *smt.Term
	switch {
	case s == smt.Bool:
		z = w.C.False()
	case s == smt.Int:
		z = w.C.IntLit(0)
	case s.IsBV():
		z = w.C.BVLit(0, s.BVWidth())
	case s == smt.Real:
		z = w.C.RealLit(new(big.Rat))
	case s == w.Str:
		z = w.StrLit("")
	case s == w.Iface:
		z = w.C.Const("iface_nil", w.Iface)
	case s.IsArray():
		z = w.C.App(fmt.Sprintf("(as const %s)", s), s, w.zeroOfSort(s.ArrayElem()))
	default:
		if dt, ok := w.dtOf[s]; ok {
			args := make([]*smt.Term, len(dt.Sorts))
			for i, fs := range dt.Sorts {
				args[i] = w.zeroOfSort(fs)
			}
			z = w.C.Construct(dt, args...)
		} else {
			z = w.C.Const("zero_"+string(s), s)
		}
	}
	w.zeroMemo[s] = z
	return z
}

func (w *World) StrLit(v string) *smt.Term {
	if t, ok := w.strLits[v]; ok {
		return t
	}
	name := fmt.Sprintf("str!%d", len(w.strOrder))
	t := w.C.Const(name, w.Str)
	w.strLits[v] = t
	w.strOrder = append(w.strOrder, v)
	return t
}

// StrFacts returns axioms about the string literals occurring in the given symbol set.
func (w *World) StrFacts(used map[string]bool) []*smt.Term {
	var lits []*smt.Term
	var out []*smt.Term
	for _, v := range w.strOrder {
		t := w.strLits[v]
		if !used[t.Op] {
			continue
		}
		lits = append(lits, t)
		out = append(out, w.C.Eq(w.C.App("str_len", smt.Int, t), w.C.IntLit(int64(len(v)))))
		if w.seqUsed && len(v) >= 2 && v[0] == 0x1b {
			// the structure of a literal escape sequence (only when a specification uses the seq* functions)
			out = append(out, w.seqFacts(t, parseSeqShape(v), nil)...)
		}
		if len(v) <= 8 {
			for i := 0; i < len(v); i++ {
				out = append(out, w.C.Eq(w.C.App("str_at", smt.Int, t, w.C.IntLit(int64(i))), w.C.IntLit(int64(v[i]))))
			}
		}
	}
	if len(lits) > 1 {
		out = append(out, w.C.Distinct(lits...))
	}
	return out
}

func (w *World) TypeID(t types.Type) int {
	k := types.TypeString(t, nil)
	if id, ok := w.typeIDs[k]; ok {
		return id
	}
	id := len(w.typeIDs) + 1
	w.typeIDs[k] = id
	w.typeOfID[k] = t
	return id
}

// intRange returns (lo, hi, bounded) for integer types; hi exclusive.
func intRange(t types.Type) (lo, hi *big.Int, unsigned bool, ok bool) {
	b, isB := t.Underlying().(*types.Basic)
	if !isB || b.Info()&types.IsInteger == 0 {
		return nil, nil, false, false
	}
	one := big.NewInt(1)
	mk := func(bits uint, uns bool) (*big.Int, *big.Int, bool, bool) {
		if uns {
			return big.NewInt(0), new(big.Int).Lsh(one, bits), true, true
		}
		h := new(big.Int).Lsh(one, bits-1)
		return new(big.Int).Neg(h), h, false, true
	}
	switch b.Kind() {
	case types.Int8:
		return mk(8, false)
	case types.Int16:
		return mk(16, false)
	case types.Int32:
		return mk(32, false)
	case types.Int64, types.Int:
		return mk(64, false)
	case types.Uint8:
		return mk(8, true)
	case types.Uint16:
		return mk(16, true)
	case types.Uint32:
		return mk(32, true)
	case types.Uint64, types.Uint, types.Uintptr:
		return mk(64, true)
	}
	return nil, nil, false, false
}

// WF returns the well-formedness condition of a value term of Go type t
// (integer ranges of small/unsigned types, slice header sanity), or nil.
func (w *World) WF(t types.Type, v *smt.Term, depth int) *smt.Term {
	c := w.C
	if v.Sort.IsBV() {
		return nil
	}
	switch u := t.Underlying().(type) {
	case *types.Basic:
		lo, hi, _, ok := intRange(t)
		if ok {
			return c.And(c.Le(c.BigLit(lo), v), c.Lt(v, c.BigLit(hi)))
		}
		if u.Info()&types.IsString != 0 {
			return nil // str_len >= 0 asserted where used
		}
	case *types.Slice:
		dt := w.SliceDT
		ln, cp, off, arr := c.Field(dt, 2, v), c.Field(dt, 3, v), c.Field(dt, 1, v), c.Field(dt, 0, v)
		return c.And(c.Le(c.IntLit(0), ln), c.Le(ln, cp), c.Le(cp, c.BigLit(pow2(56))), c.Le(c.IntLit(0), off), c.Le(c.IntLit(0), arr),
			c.Implies(c.Eq(arr, c.IntLit(0)), c.Eq(cp, c.IntLit(0))))
	case *types.Pointer, *types.Map, *types.Chan, *types.Signature:
		return c.Le(c.IntLit(0), v)
	case *types.Struct:
		s := w.SortOf(t)
		dt, ok := w.dtOf[s]
		if !ok || depth > 4 {
			return nil
		}
		var parts []*smt.Term
		for i := 0; i < u.NumFields(); i++ {
			if p := w.WF(u.Field(i).Type(), c.Field(dt, i, v), depth+1); p != nil {
				parts = append(parts, p)
			}
		}
		if len(parts) == 0 {
			return nil
		}
		return c.And(parts...)
	}
	return nil
}

func isUnsigned(t types.Type) bool {
	b, ok := t.Underlying().(*types.Basic)
	return ok && b.Info()&types.IsUnsigned != 0
}
func isInteger(t types.Type) bool {
	b, ok := t.Underlying().(*types.Basic)
	return ok && b.Info()&types.IsInteger != 0
}
func isFloat(t types.Type) bool {
	b, ok := t.Underlying().(*types.Basic)
	return ok && b.Info()&types.IsFloat != 0
}
func isString(t types.Type) bool {
	b, ok := t.Underlying().(*types.Basic)
	return ok && b.Info()&types.IsString != 0
}
func isBool(t types.Type) bool {
	b, ok := t.Underlying().(*types.Basic)
	return ok && b.Info()&types.IsBoolean != 0
}

func pow2(n uint) *big.Int { return new(big.Int).Lsh(big.NewInt(1), n) }

func bitsOf(t types.Type) uint {
	b, ok := t.Underlying().(*types.Basic)
	if !ok {
		return 64
	}
	switch b.Kind() {
	case types.Int8, types.Uint8:
		return 8
	case types.Int16, types.Uint16:
		return 16
	case types.Int32, types.Uint32:
		return 32
	}
	return 64
}

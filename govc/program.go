package main

import (
	"fmt"
	"go/constant"
	"go/token"
	"go/types"
	"os"
	"path/filepath"
	"sort"
	"strings"
	"sync"

	"golang.org/x/tools/go/packages"
	"golang.org/x/tools/go/ssa"
	"golang.org/x/tools/go/ssa/ssautil"
)

type Program struct {
	SSA          *ssa.Program
	Fset         *token.FileSet
	Pkgs         []*packages.Package
	SPkgs        map[string]*ssa.Package // by import path
	ModPath      string
	RepoDir      string
	contracts    map[string]*PkgContracts // by import path
	mu           sync.Mutex
	sums         map[*ssa.Function]*Modset
	direct       map[*ssa.Function]*funcMods
	keyDescs     map[string]keyDesc
	scratch      *Exec
	allFuncs     map[*ssa.Function]bool
	funcIDs      map[*ssa.Function]int
	addrTaken    []*ssa.Function
	addrDone     bool
	srcLines     map[string][]string
	mapEntries   map[*ssa.Global][]mapEntry
	mapEntriesOK map[*ssa.Global]bool
	bvTypes      map[types.Object]int
	globalLens   map[*ssa.Global]int64
	mapConst     map[*ssa.Global]bool
}

type keyDesc struct {
	kind   byte // F E P G
	st     types.Type
	field  int
	elem   types.Type
	global *ssa.Global
	ghost  *PredDecl
}

func LoadProgram(repo string) (*Program, error) {
	cfg := &packages.Config{Mode: packages.LoadAllSyntax | packages.NeedModule, Dir: repo, BuildFlags: []string{"-tags=verif"}}
	pkgs, err := packages.Load(cfg, "./...")
	if err != nil {
		return nil, err
	}
	var errs []string
	packages.Visit(pkgs, nil, func(p *packages.Package) {
		for _, e := range p.Errors {
			errs = append(errs, e.Error())
		}
	})
	if len(errs) > 0 {
		return nil, fmt.Errorf("package errors:\n%s", strings.Join(errs, "\n"))
	}
	prog, spkgs := ssautil.AllPackages(pkgs, ssa.GlobalDebug)
	prog.Build()
	p := &Program{SSA: prog, Fset: prog.Fset, Pkgs: pkgs, SPkgs: map[string]*ssa.Package{}, RepoDir: repo,
		contracts: map[string]*PkgContracts{}, sums: map[*ssa.Function]*Modset{}, direct: map[*ssa.Function]*funcMods{}, keyDescs: map[string]keyDesc{}}
	for i, sp := range spkgs {
		if sp != nil {
			p.SPkgs[pkgs[i].PkgPath] = sp
		}
	}
	for _, pk := range pkgs {
		if pk.Module != nil && pk.Module.Main {
			p.ModPath = pk.Module.Path
		}
	}
	if p.ModPath == "" && len(pkgs) > 0 && pkgs[0].Module != nil {
		p.ModPath = pkgs[0].Module.Path
	}
	for _, pk := range pkgs {
		if len(pk.GoFiles) == 0 {
			continue
		}
		dir := filepath.Dir(pk.GoFiles[0])
		pc, err := ReadContracts(dir)
		if err != nil {
			return nil, err
		}
		for _, pd := range pc.Preds {
			pd.PkgPath = pk.PkgPath
		}
		pc.PkgPath = pk.PkgPath
		p.contracts[pk.PkgPath] = pc
	}
	p.bvTypes = map[types.Object]int{}
	for _, pk := range pkgs {
		pc := p.contracts[pk.PkgPath]
		if pc == nil || pk.Types == nil {
			continue
		}
		for _, name := range pc.BVTypes {
			tn, ok := pk.Types.Scope().Lookup(name).(*types.TypeName)
			if !ok || !isUnsigned(tn.Type()) {
				return nil, fmt.Errorf("bvtype %s: not an unsigned named type of package %s", name, pk.PkgPath)
			}
			p.bvTypes[tn] = int(bitsOf(tn.Type()))
		}
	}
	p.allFuncs = ssautil.AllFunctions(prog)
	w := NewWorld(p.ModPath)
	w.bv = p.bvTypes
	p.scratch = &Exec{W: w, Prog: p, keys: map[string]*HeapKey{}, Abstr: map[string]bool{}, Unsound: map[string]bool{}, siteCtr: map[string]int{}, bitsDecl: map[string]int{}}
	return p, nil
}

// relPkg returns the package path relative to the module ("." for the root).
func (p *Program) relPkg(path string) string {
	if path == p.ModPath {
		return "."
	}
	return strings.TrimPrefix(path, p.ModPath+"/")
}

// localKey is the function's name within its package: "Name", "(T).Name" or "(*T).Name".
func localKey(f *ssa.Function) string {
	if recv := f.Signature.Recv(); recv != nil {
		t := recv.Type()
		ptr := ""
		if pt, ok := t.(*types.Pointer); ok {
			ptr = "*"
			t = pt.Elem()
		}
		name := t.String()
		if n, ok := t.(*types.Named); ok {
			name = n.Obj().Name()
		}
		if ptr != "" {
			return "(*" + name + ")." + f.Name()
		}
		return "(" + name + ")." + f.Name()
	}
	if f.Parent() != nil {
		return localKey(f.Parent()) + "$" + f.Name()
	}
	return f.Name()
}

// FuncKey is "<relpkg>.<localKey>", e.g. "widgets/term.(*Model).cud" or "..(Window).SetCell" for the root package written as "vaxis".
func (p *Program) FuncKey(f *ssa.Function) string {
	pk := pkgOf(f)
	if pk == nil {
		return f.String()
	}
	rel := p.relPkg(pk.Path())
	if rel == "." {
		rel = "vaxis"
	}
	return rel + "." + localKey(f)
}

func (p *Program) ContractsFor(f *ssa.Function) *PkgContracts {
	pk := pkgOf(f)
	if pk == nil {
		return nil
	}
	return p.contracts[pk.Path()]
}

// FindFunc resolves a FuncKey to the SSA function.
func (p *Program) FindFunc(key string) *ssa.Function {
	for f := range p.allFuncs {
		if f.Synthetic != "" {
			continue
		}
		if pk := pkgOf(f); pk != nil && p.scratch.W.inModule(pk) && p.FuncKey(f) == key {
			return f
		}
	}
	return nil
}

func (p *Program) GlobalFor(v *types.Var) *ssa.Global {
	if v.Pkg() == nil {
		return nil
	}
	sp := p.SSA.Package(v.Pkg())
	if sp == nil {
		return nil
	}
	g, _ := sp.Members[v.Name()].(*ssa.Global)
	return g
}

// FuncID gives every function a distinct positive integer (the model of a func value).
func (p *Program) FuncID(f *ssa.Function) int {
	p.mu.Lock()
	defer p.mu.Unlock()
	if p.funcIDs == nil {
		p.funcIDs = map[*ssa.Function]int{}
	}
	if id, ok := p.funcIDs[f]; ok {
		return id
	}
	id := 1000 + len(p.funcIDs)
	p.funcIDs[f] = id
	return id
}

// GlobalSliceLen: the global is a slice initialised once, in the package initialiser, from a composite
// literal of n elements, and never assigned anywhere else; then len == cap == n always.
func (p *Program) GlobalSliceLen(g *ssa.Global) (int64, bool) {
	p.mu.Lock()
	defer p.mu.Unlock()
	if p.globalLens == nil {
		p.globalLens = map[*ssa.Global]int64{}
		stores := map[*ssa.Global]int{}
		for fn := range p.allFuncs {
			for _, b := range fn.Blocks {
				for _, in := range b.Instrs {
					st, ok := in.(*ssa.Store)
					if !ok {
						continue
					}
					gg, ok := st.Addr.(*ssa.Global)
					if !ok {
						continue
					}
					stores[gg]++
					if fn.Name() == "init" && fn.Synthetic != "" {
						if sl, ok := st.Val.(*ssa.Slice); ok && sl.Low == nil && sl.High == nil {
							if al, ok := sl.X.(*ssa.Alloc); ok {
								if at, ok := al.Type().(*types.Pointer).Elem().Underlying().(*types.Array); ok {
									p.globalLens[gg] = at.Len()
								}
							}
						}
					}
				}
			}
		}
		for gg := range p.globalLens {
			if stores[gg] != 1 {
				delete(p.globalLens, gg)
			}
		}
	}
	n, ok := p.globalLens[g]
	return n, ok
}

// GlobalInitString: the literal a package-level string variable is initialised with.
func (p *Program) GlobalInitString(g *ssa.Global) (string, bool) {
	if g.Pkg == nil {
		return "", false
	}
	init := g.Pkg.Func("init")
	if init == nil {
		return "", false
	}
	for _, b := range init.Blocks {
		for _, in := range b.Instrs {
			if st, ok := in.(*ssa.Store); ok && st.Addr == ssa.Value(g) {
				if c, ok := st.Val.(*ssa.Const); ok && c.Value != nil && c.Value.Kind() == constant.String {
					return constant.StringVal(c.Value), true
				}
			}
		}
	}
	return "", false
}

// GlobalMapConst: the global map is filled only by the package initialiser (no MapUpdate or store elsewhere),
// so a lookup is a pure function of the key.
// constDesc describes a compile-time constant key or value of a map literal: a constant, or a struct of them.
type constDesc struct {
	cst    *ssa.Const
	fields []*constDesc
	t      types.Type
}

type mapEntry struct{ key, val *constDesc }

// GlobalMapEntries returns the entries of an init-only package-level map whose literal has only constant (or
// struct-of-constant) keys and values; ok=false if the literal has any other shape.
func (p *Program) GlobalMapEntries(g *ssa.Global) ([]mapEntry, bool) {
	if !p.GlobalMapConst(g) {
		return nil, false
	}
	p.mu.Lock()
	defer p.mu.Unlock()
	if p.mapEntries == nil {
		p.mapEntries = map[*ssa.Global][]mapEntry{}
		p.mapEntriesOK = map[*ssa.Global]bool{}
	}
	if ok, done := p.mapEntriesOK[g]; done {
		return p.mapEntries[g], ok
	}
	p.mapEntriesOK[g] = false
	initFn := g.Pkg.Func("init")
	if initFn == nil {
		return nil, false
	}
	// the map value stored into g, and its updates
	var mk *ssa.MakeMap
	nstores := 0
	for _, b := range initFn.Blocks {
		for _, in := range b.Instrs {
			if st, ok := in.(*ssa.Store); ok && st.Addr == g {
				nstores++
				mk, _ = st.Val.(*ssa.MakeMap)
			}
		}
	}
	if nstores != 1 || mk == nil {
		return nil, false
	}
	// stores into the fields of composite-literal temporaries
	fieldStores := map[*ssa.Alloc]map[int]ssa.Value{}
	for _, b := range initFn.Blocks {
		for _, in := range b.Instrs {
			if st, ok := in.(*ssa.Store); ok {
				if fa, ok := st.Addr.(*ssa.FieldAddr); ok {
					if al, ok := fa.X.(*ssa.Alloc); ok {
						if fieldStores[al] == nil {
							fieldStores[al] = map[int]ssa.Value{}
						}
						if _, dup := fieldStores[al][fa.Field]; dup {
							fieldStores[al][-1] = nil // stored twice: not a plain literal
						}
						fieldStores[al][fa.Field] = st.Val
					}
				}
			}
		}
	}
	var desc func(v ssa.Value, depth int) *constDesc
	desc = func(v ssa.Value, depth int) *constDesc {
		if depth > 3 {
			return nil
		}
		switch x := v.(type) {
		case *ssa.Const:
			return &constDesc{cst: x, t: x.Type()}
		case *ssa.UnOp:
			al, ok := x.X.(*ssa.Alloc)
			if !ok || x.Op != token.MUL {
				return nil
			}
			stt, ok := al.Type().(*types.Pointer).Elem().Underlying().(*types.Struct)
			if !ok {
				return nil
			}
			fs := fieldStores[al]
			if _, twice := fs[-1]; twice {
				return nil
			}
			d := &constDesc{t: al.Type().(*types.Pointer).Elem()}
			for i := 0; i < stt.NumFields(); i++ {
				fv, ok := fs[i]
				if !ok {
					d.fields = append(d.fields, &constDesc{t: stt.Field(i).Type()}) // zero value
					continue
				}
				fd := desc(fv, depth+1)
				if fd == nil {
					return nil
				}
				d.fields = append(d.fields, fd)
			}
			return d
		}
		return nil
	}
	var out []mapEntry
	for _, b := range initFn.Blocks {
		for _, in := range b.Instrs {
			mu, ok := in.(*ssa.MapUpdate)
			if !ok || mu.Map != mk {
				continue
			}
			k, v := desc(mu.Key, 0), desc(mu.Value, 0)
			if k == nil || v == nil {
				return nil, false
			}
			out = append(out, mapEntry{k, v})
		}
	}
	if len(out) == 0 || len(out) > 200 {
		return nil, false
	}
	p.mapEntries[g] = out
	p.mapEntriesOK[g] = true
	return out, true
}

func (p *Program) GlobalMapConst(g *ssa.Global) bool {
	p.mu.Lock()
	defer p.mu.Unlock()
	if p.mapConst == nil {
		p.mapConst = map[*ssa.Global]bool{}
		bad := map[*ssa.Global]bool{}
		isMap := func(gg *ssa.Global) bool {
			_, ok := gg.Type().(*types.Pointer).Elem().Underlying().(*types.Map)
			return ok
		}
		for fn := range p.allFuncs {
			inInit := fn.Name() == "init" && fn.Synthetic != ""
			for _, b := range fn.Blocks {
				for _, in := range b.Instrs {
					switch x := in.(type) {
					case *ssa.Store:
						if gg, ok := x.Addr.(*ssa.Global); ok && isMap(gg) {
							if inInit {
								p.mapConst[gg] = true
							} else {
								bad[gg] = true
							}
						}
					case *ssa.MapUpdate:
						if ld, ok := x.Map.(*ssa.UnOp); ok {
							if gg, ok := ld.X.(*ssa.Global); ok && !inInit {
								bad[gg] = true
							}
						}
					case ssa.CallInstruction:
						// a global map passed to any call outside init could be mutated there
						if !inInit {
							for _, a := range x.Common().Args {
								if ld, ok := a.(*ssa.UnOp); ok {
									if gg, ok := ld.X.(*ssa.Global); ok && isMap(gg) {
										bad[gg] = true
									}
								}
							}
						}
					}
				}
			}
		}
		for gg := range bad {
			delete(p.mapConst, gg)
		}
	}
	return p.mapConst[g]
}

// BoundTarget maps a bound-method wrapper to the method it wraps (other functions map to themselves);
// go/ssa may create several wrappers for one method.
func (p *Program) BoundTarget(f *ssa.Function) *ssa.Function {
	if len(f.FreeVars) == 1 && f.Synthetic != "" {
		if obj, ok := f.Object().(*types.Func); ok {
			if t := p.SSA.FuncValue(obj); t != nil {
				return t
			}
		}
	}
	return f
}

// AddressTaken lists module functions used as values (possible targets of indirect calls).
func (p *Program) AddressTaken() []*ssa.Function {
	p.mu.Lock()
	defer p.mu.Unlock()
	if p.addrDone {
		return p.addrTaken
	}
	seen := map[*ssa.Function]bool{}
	add := func(f *ssa.Function) {
		if f != nil && !seen[f] && p.scratch.W.inModule(pkgOf(f)) {
			seen[f] = true
			p.addrTaken = append(p.addrTaken, f)
		}
	}
	for fn := range p.allFuncs {
		if !p.scratch.W.inModule(pkgOf(fn)) {
			continue
		}
		for _, b := range fn.Blocks {
			for _, in := range b.Instrs {
				if mc, ok := in.(*ssa.MakeClosure); ok {
					if f, ok := mc.Fn.(*ssa.Function); ok {
						add(f)
					}
				}
				var callee ssa.Value
				if ci, ok := in.(ssa.CallInstruction); ok {
					callee = ci.Common().Value
				}
				for _, op := range in.Operands(nil) {
					if op == nil || *op == nil {
						continue
					}
					if f, ok := (*op).(*ssa.Function); ok && ssa.Value(f) != callee {
						add(f)
					}
				}
			}
		}
	}
	sort.Slice(p.addrTaken, func(i, j int) bool { return p.addrTaken[i].String() < p.addrTaken[j].String() })
	p.addrDone = true
	return p.addrTaken
}

func (p *Program) TypesPkg(path string) *types.Package {
	for _, pk := range p.Pkgs {
		if pk.PkgPath == path {
			return pk.Types
		}
	}
	return nil
}

func (p *Program) FindPred(name string) *PredDecl {
	for _, pc := range p.contracts {
		if pd, ok := pc.Preds[name]; ok {
			return pd
		}
	}
	return nil
}

func (p *Program) LookupType(from *types.Package, name string) types.Type {
	if obj := types.Universe.Lookup(name); obj != nil {
		if tn, ok := obj.(*types.TypeName); ok {
			return tn.Type()
		}
	}
	pkgName, tname := "", name
	if i := strings.LastIndex(name, "."); i >= 0 {
		pkgName, tname = name[:i], name[i+1:]
	}
	ptr := false
	if strings.HasPrefix(pkgName, "*") {
		ptr = true
		pkgName = pkgName[1:]
	} else if strings.HasPrefix(tname, "*") {
		ptr = true
		tname = tname[1:]
	}
	var scope *types.Scope
	if pkgName == "" || (from != nil && from.Name() == pkgName) {
		scope = from.Scope()
	} else {
		for _, pk := range p.Pkgs {
			if pk.Types != nil && (pk.Types.Name() == pkgName || pk.PkgPath == pkgName) {
				scope = pk.Types.Scope()
			}
		}
		if scope == nil && from != nil {
			for _, imp := range from.Imports() {
				if imp.Name() == pkgName {
					scope = imp.Scope()
				}
			}
		}
	}
	if scope == nil {
		return nil
	}
	tn, ok := scope.Lookup(tname).(*types.TypeName)
	if !ok {
		return nil
	}
	if ptr {
		return types.NewPointer(tn.Type())
	}
	return tn.Type()
}

func (p *Program) FuncByName(pkg *types.Package, name string) *ssa.Function {
	sp := p.SSA.Package(pkg)
	if sp == nil {
		return nil
	}
	f, _ := sp.Members[name].(*ssa.Function)
	return f
}

func (p *Program) MethodByName(recv types.Type, name string) *ssa.Function {
	for _, t := range []types.Type{recv, types.NewPointer(recv)} {
		ms := p.SSA.MethodSets.MethodSet(t)
		for i := 0; i < ms.Len(); i++ {
			if ms.At(i).Obj().Name() == name {
				if fn := p.SSA.MethodValue(ms.At(i)); fn != nil {
					// unwrap synthetic wrappers to the declared method
					if fn.Synthetic != "" {
						if obj, ok := ms.At(i).Obj().(*types.Func); ok {
							if real := p.SSA.FuncValue(obj); real != nil {
								return real
							}
						}
					}
					return fn
				}
			}
		}
		if _, isPtr := recv.Underlying().(*types.Pointer); isPtr {
			break
		}
	}
	return nil
}

// ---------------------------------------------------------------- static mod-set analysis

type funcMods struct {
	ms          *Modset
	paramStores map[int]bool
	callees     []calleeUse
}

type calleeUse struct {
	fn   *ssa.Function
	args []ssa.Value
}

type rootInfo struct {
	key    string
	base   ssa.Value // opaque base value (pointer or slice) the key is indexed by
	local  *ssa.Alloc
	param  *ssa.Parameter // store goes through this pointer parameter (possibly interior)
	wholeT types.Type     // store of a whole struct through an opaque pointer: all fields of this type
	none   bool
}

func (p *Program) noteKey(name string, d keyDesc) string {
	p.keyDescs[name] = d
	return name
}

func (p *Program) KeyInfo(ex *Exec, name string) *HeapKey {
	if k, ok := ex.keys[name]; ok {
		return k
	}
	p.mu.Lock()
	d, ok := p.keyDescs[name]
	p.mu.Unlock()
	if !ok {
		return nil
	}
	switch d.kind {
	case 'F':
		return ex.keyField(d.st, d.field)
	case 'E':
		return ex.keyElem(d.elem)
	case 'P':
		return ex.keyPtr(d.elem)
	case 'G':
		return ex.keyGlobal(d.global)
	case 'X':
		switch name {
		case "X:modes":
			return ex.modesKey()
		case "X:trow":
			return ex.trowKey()
		case "X:tcol":
			return ex.tcolKey()
		}
		return ex.penKey()
	case 'Z':
		env := &CEnv{ex: ex, pkg: p.TypesPkg(d.ghost.PkgPath)}
		return ex.ghostKey(d.ghost.Name, env.specType(d.ghost.ResType))
	case 'L':
		a, n := ex.logKeys(name[2:])
		if name[0] == 'L' {
			return a
		}
		return n
	}
	return nil
}

// rootOf statically resolves the heap component an address value designates.
func (p *Program) rootOf(v ssa.Value) rootInfo {
	sx := p.scratch
	switch x := v.(type) {
	case *ssa.FieldAddr:
		switch x.X.(type) {
		case *ssa.FieldAddr, *ssa.IndexAddr, *ssa.Alloc, *ssa.Global:
			if a, ok := x.X.(*ssa.Alloc); !ok || !a.Heap {
				if ia, ok := x.X.(*ssa.IndexAddr); ok {
					if _, isSlice := ia.X.Type().Underlying().(*types.Slice); isSlice {
						return p.rootOf(x.X)
					}
				}
				return p.rootOf(x.X)
			}
		}
		st := x.X.Type().Underlying().(*types.Pointer).Elem()
		if sx.W.DT(sx.W.SortOf(st)) == nil {
			return rootInfo{none: true}
		}
		k := sx.keyField(st, x.Field)
		ri := rootInfo{key: p.noteKey(k.Name, keyDesc{kind: 'F', st: st, field: x.Field}), base: x.X}
		if pr, ok := x.X.(*ssa.Parameter); ok {
			ri.param = pr
		}
		return ri
	case *ssa.IndexAddr:
		if sl, ok := x.X.Type().Underlying().(*types.Slice); ok {
			k := sx.keyElem(sl.Elem())
			return rootInfo{key: p.noteKey(k.Name, keyDesc{kind: 'E', elem: sl.Elem()}), base: x.X}
		}
		return p.rootOf(x.X)
	case *ssa.Alloc:
		if !x.Heap {
			return rootInfo{local: x}
		}
	case *ssa.Global:
		k := sx.keyGlobal(x)
		return rootInfo{key: p.noteKey(k.Name, keyDesc{kind: 'G', global: x})}
	}
	// opaque pointer used directly
	pt, ok := v.Type().Underlying().(*types.Pointer)
	if !ok {
		return rootInfo{none: true}
	}
	el := pt.Elem()
	ri := rootInfo{base: v}
	if pr, ok := v.(*ssa.Parameter); ok {
		ri.param = pr
	}
	if _, isStruct := el.Underlying().(*types.Struct); isStruct {
		if sx.W.DT(sx.W.SortOf(el)) == nil {
			return rootInfo{none: true}
		}
		ri.wholeT = el
		return ri
	}
	k := sx.keyPtr(el)
	ri.key = p.noteKey(k.Name, keyDesc{kind: 'P', elem: el})
	return ri
}

func (p *Program) addRoot(ms *Modset, ri rootInfo, loopBlocks map[*ssa.BasicBlock]bool, whole map[string]bool) {
	if ri.none {
		return
	}
	if ri.local != nil {
		ms.locals[ri.local] = true
		return
	}
	add := func(key string) {
		ms.keys[key] = true
		if loopBlocks == nil {
			return
		}
		invariant := false
		if ri.base != nil {
			switch b := ri.base.(type) {
			case *ssa.Parameter, *ssa.Global:
				invariant = true
			case ssa.Instruction:
				invariant = !loopBlocks[b.Block()]
				if !invariant {
					// a field of an object whose pointer is loop-invariant, re-read in every iteration: the base is
					// invariant provided the loop does not store to that field (checked once the set is complete)
					if fk := p.invariantFieldLoad(b, loopBlocks); fk != "" {
						invariant = true
						if ms.refLoads == nil {
							ms.refLoads = map[ssa.Value]string{}
						}
						ms.refLoads[ri.base] = fk
					}
				}
			}
		}
		if key[0] == 'G' {
			return
		}
		if !invariant || whole[key] {
			whole[key] = true
			delete(ms.refOnly, key)
			return
		}
		for _, b := range ms.refOnly[key] {
			if b == ri.base {
				return
			}
		}
		ms.refOnly[key] = append(ms.refOnly[key], ri.base)
	}
	if ri.wholeT != nil {
		st := ri.wholeT.Underlying().(*types.Struct)
		for i := 0; i < st.NumFields(); i++ {
			k := p.scratch.keyField(ri.wholeT, i)
			add(p.noteKey(k.Name, keyDesc{kind: 'F', st: ri.wholeT, field: i}))
		}
		return
	}
	if ri.key != "" {
		add(ri.key)
	}
}

// invariantFieldLoad: in is `*(&p.f)` with p defined outside the loop; the key of field f is returned.
func (p *Program) invariantFieldLoad(in ssa.Instruction, loopBlocks map[*ssa.BasicBlock]bool) string {
	u, ok := in.(*ssa.UnOp)
	if !ok || u.Op != token.MUL {
		return ""
	}
	fa, ok := u.X.(*ssa.FieldAddr)
	if !ok {
		return ""
	}
	switch b := fa.X.(type) {
	case *ssa.Parameter:
	case ssa.Instruction:
		if loopBlocks[b.Block()] {
			return ""
		}
	default:
		return ""
	}
	st := fa.X.Type().Underlying().(*types.Pointer).Elem()
	if _, isStruct := st.Underlying().(*types.Struct); !isStruct || p.scratch.W.DT(p.scratch.W.SortOf(st)) == nil {
		return ""
	}
	k := p.scratch.keyField(st, fa.Field)
	return p.noteKey(k.Name, keyDesc{kind: 'F', st: st, field: fa.Field})
}

// directMods analyses one function body (no transitive callees).
func (p *Program) directMods(f *ssa.Function) *funcMods {
	if fm, ok := p.direct[f]; ok {
		return fm
	}
	fm := &funcMods{ms: newModset(), paramStores: map[int]bool{}}
	p.direct[f] = fm
	paramIdx := map[*ssa.Parameter]int{}
	for i, pr := range f.Params {
		paramIdx[pr] = i
	}
	whole := map[string]bool{}
	for _, b := range f.Blocks {
		for _, in := range b.Instrs {
			switch x := in.(type) {
			case *ssa.Store:
				ri := p.rootOf(x.Addr)
				if ri.param != nil {
					fm.paramStores[paramIdx[ri.param]] = true
				}
				p.addRoot(fm.ms, ri, nil, whole)
			case *ssa.Alloc:
				if x.Heap {
					fm.ms.allocates = true
				}
			case *ssa.MakeSlice, *ssa.MakeMap, *ssa.MakeChan, *ssa.MakeClosure:
				fm.ms.allocates = true
			case *ssa.Convert:
				if _, ok := x.Type().Underlying().(*types.Slice); ok {
					fm.ms.allocates = true
				}
			case ssa.CallInstruction:
				if _, isGo := in.(*ssa.Go); isGo {
					continue
				}
				p.callMods(fm, x.Common(), paramIdx)
			}
		}
	}
	// anonymous functions defined here may run later via closures; their effects are accounted for where they are called (havocAll)
	return fm
}

// sourceLine returns line n (1-based) of a source file of the repository (cached).
func (p *Program) sourceLine(file string, n int) string {
	p.mu.Lock()
	defer p.mu.Unlock()
	if p.srcLines == nil {
		p.srcLines = map[string][]string{}
	}
	ls, ok := p.srcLines[file]
	if !ok {
		data, err := os.ReadFile(file)
		if err == nil {
			ls = strings.Split(string(data), "\n")
		}
		p.srcLines[file] = ls
	}
	if n < 1 || n > len(ls) {
		return ""
	}
	return ls[n-1]
}

// externDecl finds an `extern attr` / `extern func` declaration for a callee key in any package's contracts.
func (p *Program) externDecl(key string) (bool, *FuncContract, *PkgContracts) {
	var paths []string
	for k := range p.contracts {
		paths = append(paths, k)
	}
	sort.Strings(paths)
	for _, k := range paths {
		pc := p.contracts[k]
		if pc == nil {
			continue
		}
		if _, ok := pc.ExternAttr[key]; ok {
			return true, nil, pc
		}
		if fc, ok := pc.ExternFuncs[key]; ok {
			return false, fc, pc
		}
	}
	return false, nil, nil
}

// externMods: a declared function outside the module changes only the ghost fields its `sets` clauses name.
func (p *Program) externMods(fm *funcMods, fc *FuncContract, pc *PkgContracts, args []ssa.Value) {
	if fc == nil {
		return
	}
	var names []string
	if m := externHdrRe.FindStringSubmatch(fc.Header); m != nil {
		for _, prm := range strings.Split(m[1], ",") {
			if f := strings.Fields(strings.TrimSpace(prm)); len(f) > 0 {
				names = append(names, f[0])
			}
		}
	}
	for _, lc := range fc.Logs {
		fm.ms.keys[p.noteKey("L:"+lc.Name, keyDesc{kind: 'L'})] = true
		fm.ms.keys[p.noteKey("N:"+lc.Name, keyDesc{kind: 'L'})] = true
	}
	for _, cl := range fc.Clauses {
		switch cl.Kind {
		case "modifies":
			fm.ms.all = true // explicit modifies on a declared function: not analysed, forget everything
		case "sets":
			call := cl.Mods[0].(*ECall)
			id, _ := call.Fun.(*EIdent)
			if id == nil {
				continue
			}
			pd := pc.Preds[id.Name]
			if pd == nil {
				pd = p.FindPred(id.Name)
			}
			if pd == nil {
				continue
			}
			key := p.noteKey("Z:"+pd.Name, keyDesc{kind: 'Z', ghost: pd})
			ri := rootInfo{key: key}
			if obj, ok := call.Args[0].(*EIdent); ok {
				for i, n := range names {
					if n == obj.Name && i < len(args) {
						ri.base = args[i]
					}
				}
			}
			p.addRoot(fm.ms, ri, nil, map[string]bool{})
		}
	}
}

func (p *Program) callMods(fm *funcMods, cc *ssa.CallCommon, paramIdx map[*ssa.Parameter]int) {
	sx := p.scratch
	if cc.IsInvoke() {
		if named, ok := cc.Value.Type().(*types.Named); ok && named.Obj().Pkg() != nil {
			key := named.Obj().Pkg().Path() + "." + named.Obj().Name() + "." + cc.Method.Name()
			if attr, fc, pc := p.externDecl(key); attr || fc != nil {
				p.externMods(fm, fc, pc, append([]ssa.Value{cc.Value}, cc.Args...))
				return
			}
		}
		if !sx.pureIfaceMethod(cc) {
			fm.ms.all = true
		}
		return
	}
	if b, ok := cc.Value.(*ssa.Builtin); ok {
		switch b.Name() {
		case "append", "copy":
			if sl, ok := cc.Args[0].Type().Underlying().(*types.Slice); ok {
				k := sx.keyElem(sl.Elem())
				fm.ms.keys[p.noteKey(k.Name, keyDesc{kind: 'E', elem: sl.Elem()})] = true
				fm.ms.allocates = true
			}
		}
		return
	}
	callee := cc.StaticCallee()
	if callee == nil {
		if lg := sx.logFieldOf(cc.Value); lg != "" {
			fm.ms.keys[p.noteKey("L:"+lg, keyDesc{kind: 'L'})] = true
			fm.ms.keys[p.noteKey("N:"+lg, keyDesc{kind: 'L'})] = true
			return
		}
		if !sx.isPureField(cc.Value) {
			fm.ms.all = true
		}
		return
	}
	if k, _ := sinkKind(callee); k == "write" || k == "printf" {
		fm.ms.keys[p.noteKey("X:pen", keyDesc{kind: 'X'})] = true
		fm.ms.keys[p.noteKey("X:modes", keyDesc{kind: 'X'})] = true
		fm.ms.keys[p.noteKey("X:trow", keyDesc{kind: 'X'})] = true
		fm.ms.keys[p.noteKey("X:tcol", keyDesc{kind: 'X'})] = true
	}
	if attr, fc, pc := p.externDecl(externKey(callee)); attr || fc != nil {
		p.externMods(fm, fc, pc, cc.Args)
		fm.ms.allocates = true
		return
	}
	if !sx.W.inModule(pkgOf(callee)) || len(callee.Blocks) == 0 || opaquePkg(pkgOf(callee)) {
		full := callee.String()
		fm.ms.allocates = true
		for _, a := range cc.Args {
			switch t := a.Type().Underlying().(type) {
			case *types.Slice:
				if !readOnlySliceFuncs[full] {
					k := sx.keyElem(t.Elem())
					fm.ms.keys[p.noteKey(k.Name, keyDesc{kind: 'E', elem: t.Elem()})] = true
				}
			case *types.Pointer:
				el := t.Elem()
				if named, ok := el.(*types.Named); ok && !sx.W.inModule(named.Obj().Pkg()) {
					if _, isStruct := el.Underlying().(*types.Struct); isStruct && sx.W.DT(sx.W.SortOf(el)) == nil {
						continue
					}
				}
				ri := p.rootOf(a)
				if ri.param != nil {
					fm.paramStores[paramIdx[ri.param]] = true
				}
				p.addRoot(fm.ms, ri, nil, map[string]bool{})
			case *types.Signature:
				if deferredCallback[full] {
					continue
				}
				var cb *ssa.Function
				switch f := a.(type) {
				case *ssa.MakeClosure:
					cb, _ = f.Fn.(*ssa.Function)
				case *ssa.Function:
					cb = f
				}
				if cb != nil && sx.W.inModule(pkgOf(cb)) {
					fm.callees = append(fm.callees, calleeUse{cb, nil})
				} else if cb != nil && len(cb.FreeVars) == 0 {
					// a function declared outside the module cannot touch module state
				} else {
					fm.ms.all = true
				}
			case *types.Interface:
				if !pureExternal(full) && !sx.boxedExternal(a) {
					fm.ms.all = true
				}
			}
		}
		return
	}
	if pc := p.ContractsFor(callee); pc != nil {
		if fc := pc.Funcs[localKey(callee)]; fc != nil {
			for _, lc := range fc.Logs {
				fm.ms.keys[p.noteKey("L:"+lc.Name, keyDesc{kind: 'L'})] = true
				fm.ms.keys[p.noteKey("N:"+lc.Name, keyDesc{kind: 'L'})] = true
			}
		}
	}
	fm.callees = append(fm.callees, calleeUse{callee, cc.Args})
}

// isAddrExpr: the value is an address computed inside the function (interior or local), not a plain pointer value.
func isAddrExpr(v ssa.Value) bool {
	switch x := v.(type) {
	case *ssa.FieldAddr, *ssa.IndexAddr, *ssa.Global:
		return true
	case *ssa.Alloc:
		return !x.Heap
	}
	return false
}

// ModSummary is the transitive may-modify set of a module function.
func (p *Program) ModSummary(f *ssa.Function) *Modset {
	p.mu.Lock()
	defer p.mu.Unlock()
	return p.modSummaryLocked(f)
}

func (p *Program) modSummaryLocked(f *ssa.Function) *Modset {
	if ms, ok := p.sums[f]; ok {
		return ms
	}
	ms, _ := p.closure(f)
	p.sums[f] = ms
	return ms
}

// closure computes the transitive effect of f: absolute keys plus the set of f's pointer parameters written through.
func (p *Program) closure(f *ssa.Function) (*Modset, map[int]bool) {
	type node struct {
		ms *Modset
		ps map[int]bool
	}
	memo := map[*ssa.Function]*node{}
	var order []*ssa.Function
	var visit func(g *ssa.Function)
	visit = func(g *ssa.Function) {
		if _, ok := memo[g]; ok {
			return
		}
		fm := p.directMods(g)
		n := &node{ms: newModset(), ps: map[int]bool{}}
		n.ms.union(fm.ms)
		for a := range fm.ms.locals {
			n.ms.locals[a] = true
		}
		for i := range fm.paramStores {
			n.ps[i] = true
		}
		memo[g] = n
		order = append(order, g)
		for _, cu := range fm.callees {
			visit(cu.fn)
		}
	}
	visit(f)
	// fixpoint over the reachable set
	changed := true
	for changed {
		changed = false
		for _, g := range order {
			n := memo[g]
			fm := p.directMods(g)
			paramIdx := map[*ssa.Parameter]int{}
			for i, pr := range g.Params {
				paramIdx[pr] = i
			}
			for _, cu := range fm.callees {
				cn := memo[cu.fn]
				before := len(n.ms.keys)
				ball, balloc := n.ms.all, n.ms.allocates
				n.ms.union(cn.ms)
				if len(n.ms.keys) != before || n.ms.all != ball || n.ms.allocates != balloc {
					changed = true
				}
				// parameter-rooted stores of the callee land on the roots of our arguments
				off := 0
				if cu.fn.Signature.Recv() != nil && len(cu.args) == len(cu.fn.Params) {
					off = 0
				}
				for i := range cn.ps {
					if i+off >= len(cu.args) {
						continue
					}
					ri := p.rootOf(cu.args[i+off])
					if ri.param != nil && !n.ps[paramIdx[ri.param]] {
						n.ps[paramIdx[ri.param]] = true
						changed = true
					}
					if !isAddrExpr(cu.args[i+off]) {
						continue // plain pointer: the callee's absolute keys already cover it
					}
					tmp := newModset()
					p.addRoot(tmp, ri, nil, map[string]bool{})
					for k := range tmp.keys {
						if !n.ms.keys[k] {
							n.ms.keys[k] = true
							changed = true
						}
					}
					for a := range tmp.locals {
						if !n.ms.locals[a] {
							n.ms.locals[a] = true
							changed = true
						}
					}
				}
			}
		}
	}
	return memo[f].ms, memo[f].ps
}

// instrMods adds the effect of one instruction of a loop body to ms.
func (p *Program) instrMods(ex *Exec, in ssa.Instruction, ms *Modset, loopBlocks map[*ssa.BasicBlock]bool, seen map[string]bool, pc *PkgContracts) {
	p.mu.Lock()
	defer p.mu.Unlock()
	whole := map[string]bool{}
	for k := range ms.keys {
		if _, ok := ms.refOnly[k]; !ok {
			whole[k] = true
		}
	}
	switch x := in.(type) {
	case *ssa.Store:
		p.addRoot(ms, p.rootOf(x.Addr), loopBlocks, whole)
	case *ssa.Alloc:
		if x.Heap {
			ms.allocates = true
			// the fresh object's fields are initialised: its field components change at a new reference
			el := x.Type().(*types.Pointer).Elem()
			if st, ok := el.Underlying().(*types.Struct); ok && p.scratch.W.DT(p.scratch.W.SortOf(el)) != nil {
				for i := 0; i < st.NumFields(); i++ {
					k := p.scratch.keyField(el, i)
					name := p.noteKey(k.Name, keyDesc{kind: 'F', st: el, field: i})
					ms.keys[name] = true
					delete(ms.refOnly, name)
				}
			} else {
				k := p.scratch.keyPtr(el)
				name := p.noteKey(k.Name, keyDesc{kind: 'P', elem: el})
				ms.keys[name] = true
				delete(ms.refOnly, name)
			}
		} else {
			ms.locals[x] = true
		}
	case *ssa.MakeSlice:
		ms.allocates = true
		el := x.Type().Underlying().(*types.Slice).Elem()
		k := p.scratch.keyElem(el)
		name := p.noteKey(k.Name, keyDesc{kind: 'E', elem: el})
		ms.keys[name] = true
		delete(ms.refOnly, name)
	case *ssa.Slice:
		if pt, ok := x.X.Type().Underlying().(*types.Pointer); ok {
			if at, ok := pt.Elem().Underlying().(*types.Array); ok {
				ms.allocates = true
				k := p.scratch.keyElem(at.Elem())
				name := p.noteKey(k.Name, keyDesc{kind: 'E', elem: at.Elem()})
				ms.keys[name] = true
				delete(ms.refOnly, name)
			}
		}
	case *ssa.MakeMap, *ssa.MakeChan, *ssa.MakeClosure:
		ms.allocates = true
	case *ssa.Convert:
		if sl, ok := x.Type().Underlying().(*types.Slice); ok {
			ms.allocates = true
			k := p.scratch.keyElem(sl.Elem())
			name := p.noteKey(k.Name, keyDesc{kind: 'E', elem: sl.Elem()})
			ms.keys[name] = true
			delete(ms.refOnly, name)
		}
	case *ssa.RunDefers:
		ms.all = true
	case ssa.CallInstruction:
		if _, isGo := in.(*ssa.Go); isGo {
			return
		}
		if _, isDefer := in.(*ssa.Defer); isDefer {
			return
		}
		fm := &funcMods{ms: newModset(), paramStores: map[int]bool{}}
		p.callMods(fm, x.Common(), map[*ssa.Parameter]int{})
		merge := func(o *Modset) {
			if o.all {
				ms.all = true
			}
			if o.allocates {
				ms.allocates = true
			}
			for k := range o.keys {
				ms.keys[k] = true
				delete(ms.refOnly, k)
			}
			for a := range o.locals {
				ms.locals[a] = true
			}
		}
		merge(fm.ms)
		for _, cu := range fm.callees {
			cms, ps := p.closureCached(cu.fn)
			merge(cms)
			for i := range ps {
				if i < len(cu.args) && isAddrExpr(cu.args[i]) {
					p.addRoot(ms, p.rootOf(cu.args[i]), loopBlocks, whole)
				}
			}
		}
	}
}

var closureParamMemo = map[*ssa.Function]map[int]bool{}

func (p *Program) closureCached(f *ssa.Function) (*Modset, map[int]bool) {
	if ms, ok := p.sums[f]; ok {
		if ps, ok := closureParamMemo[f]; ok {
			return ms, ps
		}
	}
	ms, ps := p.closure(f)
	p.sums[f] = ms
	closureParamMemo[f] = ps
	return ms, ps
}

package main

import (
	"bytes"
	"context"
	"fmt"
	"os/exec"
	"runtime"
	"strings"
	"time"

	"govc/smt"
)

type SolveResult struct {
	Status     string // unsat | sat | unknown | timeout | error
	Solver     string
	Time       float64
	Model      map[string]string
	Output     string
	Tried      []string
	Linearized bool
	MaxPart    float64 // slowest sub-query of a multi-part obligation
}

type solverSpec struct {
	name string
	cmd  func(timeoutS int) []string
	pre  string
}

var solvers = []solverSpec{
	{"z3-new", func(t int) []string { return []string{"z3-new", "-in", fmt.Sprintf("-T:%d", t)} }, ""},
	{"z3", func(t int) []string { return []string{"z3", "-in", fmt.Sprintf("-T:%d", t)} }, ""},
	{"cvc5", func(t int) []string {
		return []string{"cvc5", "--lang=smt2", fmt.Sprintf("--tlimit=%d", t*1000), "--produce-models"}
	}, "(set-logic ALL)\n"},
}

// buildQuery renders the SMT script for an obligation.
func (ex *Exec) buildQuery(o *Obligation, modelTerms []*smt.Term) string {
	return ex.buildQueryOpt(o, modelTerms, false)
}

// buildQueryOpt: with linearize set, products of two non-constant terms are replaced by an
// uninterpreted function (a sound over-approximation that keeps the solvers in linear arithmetic).
// buildSliced renders a weaker query: the path condition is dropped and only the assumptions connected to the
// goal through shared constants (two rounds, heap and frontier constants do not propagate) are kept. `unsat`
// of the slice implies `unsat` of the full query; nothing else is concluded from it.
func (ex *Exec) buildSliced(o *Obligation) string {
	return ex.buildQueryFull(o, nil, false, true)
}

func (ex *Exec) buildQueryOpt(o *Obligation, modelTerms []*smt.Term, linearize bool) string {
	return ex.buildQueryFull(o, modelTerms, linearize, false)
}

func hubSymbol(s string) bool {
	return strings.HasPrefix(s, "H0_") || strings.HasPrefix(s, "v_H_") || strings.HasPrefix(s, "brk") || strings.HasPrefix(s, "v_brk") || s == "iface_nil"
}

func (ex *Exec) buildQueryFull(o *Obligation, modelTerms []*smt.Term, linearize bool, slice bool) string {
	c := ex.W.C
	var asserts []*smt.Term
	if slice {
		rel := map[string]bool{}
		smt.Symbols(o.Goal, rel, map[int]bool{})
		for s := range rel {
			if hubSymbol(s) {
				delete(rel, s)
			}
		}
		picked := map[int]bool{}
		for round := 0; round < 2; round++ {
			add := map[string]bool{}
			for i, a := range ex.assumes[:o.NAssume] {
				if picked[i] {
					continue
				}
				syms := map[string]bool{}
				smt.Symbols(a, syms, map[int]bool{})
				hit := false
				for s := range syms {
					if rel[s] {
						hit = true
						break
					}
				}
				if hit {
					picked[i] = true
					for s := range syms {
						if !hubSymbol(s) {
							add[s] = true
						}
					}
				}
			}
			for s := range add {
				rel[s] = true
			}
		}
		for i, a := range ex.assumes[:o.NAssume] {
			if picked[i] {
				asserts = append(asserts, a)
			}
		}
	} else if ex.dropLinks {
		// local query: the history links are left out, and so is every hypothesis conditional on a path that involves
		// none of the link constants the obligation's own path condition is built from (facts of other loops, of the
		// code before the loop, of the code before the last forgetting cut); unconditional facts (value ranges,
		// axioms, entry conditions) stay
		gl := ex.linksIn(o.Guard)
		for i, a := range ex.assumes[:o.NAssume] {
			if ex.histLinks[i] {
				continue
			}
			if a.Kind == smt.KApp && a.Op == "=>" && ex.linksIn(a.Args[0])&gl == 0 {
				continue
			}
			asserts = append(asserts, a)
		}
		asserts = append(asserts, o.Guard)
	} else {
		asserts = append(asserts, ex.assumes[:o.NAssume]...)
		asserts = append(asserts, o.Guard)
	}
	var sks []*smt.Term
	var negGoal *smt.Term
	if !o.ExpectSat {
		// universally quantified goals are skolemised here rather than by the solver, so that the
		// assumptions can be instantiated at the skolem constants below
		n := 0
		ex.skMemo = map[[3]int]*smt.Term{}
		goal := ex.skolemize(o.Goal, true, &n, &sks)
		ex.skMemo = nil
		negGoal = c.Not(goal)
		asserts = append(asserts, negGoal)
	}
	// ground instantiation of universally quantified assumptions at the index terms used by the goal
	cands := ex.instCandidates(o)
	for _, k := range sks {
		if k.Sort == smt.Int && len(cands) < 14 {
			cands = append(cands, k)
		}
	}
	// the neighbours of the goal's own indices: what an element moved by one (insert, delete, shift) is compared with
	// (only for quantifiers without a nested one: see expandForall)
	ex.nbrCands = nil
	for _, k := range sks {
		if k.Sort == smt.Int && len(ex.nbrCands) < 8 {
			ex.nbrCands = append(ex.nbrCands, c.Sub(k, c.IntLit(1)), c.Add(k, c.IntLit(1)))
		}
	}
	if len(cands) > 0 {
		ex.expMemo = map[[3]int]*smt.Term{}
		for i, a := range asserts {
			if c.HasQuant(a) {
				asserts[i] = ex.expandForall(a, cands, true, 2)
			}
		}
		ex.expMemo = nil
	}
	// second round: instantiation by matching modulo the offset. A hypothesis  forall q. ... A[off + q] ...  is
	// instantiated for every ground read A[t] in the query (after the first round) at q := t - off; this is what
	// the solvers' syntactic matching cannot do, and what proofs about shifted slices (insert, delete, copy) need.
	{
		// goal-directed: round one starts from the reads of the goal and the path condition; round two from the
		// reads of the instances round one added
		var added []*smt.Term
		from := asserts[len(asserts)-1:]
		if len(asserts) >= 2 {
			from = asserts[len(asserts)-2:]
		}
		for round := 0; round < 2 && len(from) > 0; round++ {
			grounds := map[int][]*smt.Term{}
			seenG := map[int]bool{}
			var collect func(t *smt.Term)
			collect = func(t *smt.Term) {
				if seenG[t.ID] {
					return
				}
				seenG[t.ID] = true
				if t.Kind == smt.KQuant {
					return
				}
				if t.Kind == smt.KApp && t.Op == "select" && len(t.Args) == 2 && t.Args[1].Sort == smt.Int && !c.HasVar(t) {
					if _, lit := t.Args[1].IntVal(); !lit {
						arr := t.Args[0]
						dup := false
						for _, g := range grounds[arr.ID] {
							if g == t.Args[1] {
								dup = true
							}
						}
						if !dup && len(grounds[arr.ID]) < 16 {
							grounds[arr.ID] = append(grounds[arr.ID], t.Args[1])
						}
					}
				}
				for _, a := range t.Args {
					collect(a)
				}
			}
			for i := len(from) - 1; i >= 0; i-- {
				collect(from[i])
			}
			added = nil
			if len(grounds) > 0 {
				budget := 60
				ex.matchMemo = map[[3]int]*smt.Term{}
				for i, a := range asserts {
					if c.HasQuant(a) && budget > 0 {
						asserts[i] = ex.expandByMatching(a, grounds, true, &budget, &added)
					}
				}
				ex.matchMemo = nil
			}
			from = added
		}
	}
	// definitions of recursive spec functions that are referenced
	if len(ex.recOrder) > 0 && !o.ExpectSat {
		// (vacuity guards are checked without the unfolding axioms: definitions of total functions cannot make a
		// reachable path unreachable, and the solvers rarely build models in their presence)
		usedF := map[string]bool{}
		seenF := map[int]bool{}
		for _, a := range asserts {
			smt.FunSymbols(a, usedF, seenF)
		}
		added := map[string]bool{}
		for changed := true; changed; {
			changed = false
			for _, name := range ex.recOrder {
				if usedF[name] && !added[name] && ex.unfoldAllowed(name) {
					added[name] = true
					asserts = append(asserts, ex.recDefs[name].axiom)
					smt.FunSymbols(ex.recDefs[name].axiom, usedF, seenF)
					changed = true
				}
			}
		}
	}
	// string literal facts
	used := map[string]bool{}
	seen := map[int]bool{}
	for _, a := range asserts {
		smt.Symbols(a, used, seen)
	}
	asserts = append(asserts, ex.W.StrFacts(used)...)
	if used["iface_nil"] {
		asserts = append(asserts, c.Eq(c.App("iface_tag", smt.Int, c.Const("iface_nil", ex.W.Iface)), c.IntLit(0)))
	}
	footer := "(check-sat)\n"
	if len(modelTerms) > 0 {
		var sb strings.Builder
		sb.WriteString("(get-value (")
		for _, t := range modelTerms {
			sb.WriteString(t.String())
			sb.WriteByte(' ')
		}
		sb.WriteString("))\n")
		footer += sb.String()
	}
	if !slice && !ex.noSlice && !o.ExpectSat && len(modelTerms) == 0 {
		asserts = dropOrphanBounds(asserts, negGoal, o.Guard)
		if ex.coi > 0 && negGoal != nil {
			asserts = coneOfInfluence(asserts, ex.coi, negGoal, o.Guard)
		}
	}
	if linearize {
		ex.W.C.DeclareFun("nl_mul", []smt.Sort{smt.Int, smt.Int}, smt.Int)
		ex.W.C.DeclareFun("nl_mulr", []smt.Sort{smt.Real, smt.Real}, smt.Real)
		for i, a := range asserts {
			asserts[i] = c.Linearize(a)
		}
	}
	return c.Script("", asserts, footer, modelTerms...)
}

// solverSlots bounds the number of solver processes running at once to the number of cores (minus two for the
// generator): a solver's time limit then measures the solver, not the queue of its competitors.
var solverSlots = make(chan struct{}, maxInt(2, runtime.NumCPU()-2))

func maxInt(a, b int) int {
	if a > b {
		return a
	}
	return b
}

func runSolverCtx(ctx context.Context, sp solverSpec, script string, timeoutS int) (status, output string, secs float64) {
	select {
	case solverSlots <- struct{}{}:
		defer func() { <-solverSlots }()
	case <-ctx.Done():
		return "timeout", "", 0
	}
	args := sp.cmd(timeoutS)
	cctx, cancel := context.WithTimeout(ctx, time.Duration(timeoutS+2)*time.Second)
	defer cancel()
	cmd := exec.CommandContext(cctx, args[0], args[1:]...)
	cmd.Stdin = strings.NewReader(sp.pre + script)
	var out bytes.Buffer
	cmd.Stdout = &out
	cmd.Stderr = &out
	t0 := time.Now()
	_ = cmd.Run()
	secs = time.Since(t0).Seconds()
	output = out.String()
	first := strings.TrimSpace(strings.SplitN(output, "\n", 2)[0])
	switch first {
	case "unsat", "sat", "unknown":
		status = first
	default:
		if cctx.Err() != nil || strings.Contains(output, "timeout") || strings.Contains(output, "interrupted") {
			status = "timeout"
		} else {
			status = "error"
		}
	}
	return
}

func runSolver(sp solverSpec, script string, timeoutS int) (status, output string, secs float64) {
	return runSolverCtx(context.Background(), sp, script, timeoutS)
}

// Solve first gives the primary solver one second on the exact script (and, if present, one second on
// the linearized over-approximation); if that is not decisive all solvers in `order` are raced on both
// for the full timeout and the first definite answer wins. For the linearized script only `unsat` counts.
func Solve(script string, timeoutS int, order []int) *SolveResult {
	return Solve2(script, "", timeoutS, order)
}

func Solve2(script, lin string, timeoutS int, order []int) *SolveResult {
	first := Solve2first(script, lin, order)
	if first.Status == "unsat" || first.Status == "sat" {
		return first
	}
	rest := Solve2race(script, lin, timeoutS, order)
	rest.Tried = append(first.Tried, rest.Tried...)
	rest.Time += first.Time
	if rest.Output == "" {
		rest.Output = first.Output
	}
	return rest
}

// Solve2first: the primary solver gets one second on the exact script and one on the linearised one.
func Solve2first(script, lin string, order []int) *SolveResult {
	res := &SolveResult{Status: "unknown"}
	t0 := time.Now()
	st, out, secs := runSolver(solvers[order[0]], script, 1)
	secs0 := secs
	res.Tried = append(res.Tried, fmt.Sprintf("%s:%s:%.2fs", solvers[order[0]].name, st, secs))
	if st == "unsat" || st == "sat" {
		res.Status, res.Solver, res.Output, res.Time = st, solvers[order[0]].name, out, secs
		return res
	}
	if st == "error" {
		res.Output = out
	}
	if lin != "" {
		st, out, secs := runSolver(solvers[order[0]], lin, 1)
		res.Tried = append(res.Tried, fmt.Sprintf("%s(lin):%s:%.2fs", solvers[order[0]].name, st, secs))
		if st == "unsat" {
			res.Status, res.Solver, res.Output, res.Time, res.Linearized = st, solvers[order[0]].name+"(lin)", out, secs0+secs, true
			return res
		}
	}
	res.Time = time.Since(t0).Seconds()
	return res
}

// Solve2race: all solvers in `order` on the exact and the linearised script, first definite answer wins.
func Solve2race(script, lin string, timeoutS int, order []int) *SolveResult {
	return Solve2raceCtx(context.Background(), script, lin, timeoutS, order)
}

// Solve2raceCtx: as Solve2race; cancelling the context stops the solvers.
func Solve2raceCtx(parent context.Context, script, lin string, timeoutS int, order []int) *SolveResult {
	res := &SolveResult{Status: "unknown"}
	t0 := time.Now()
	type ans struct {
		idx     int
		lin     bool
		nq      bool
		st, out string
		secs    float64
	}
	ctx, cancel := context.WithCancel(parent)
	defer cancel()
	n := 0
	ch := make(chan ans, 2*len(order)+2)
	if nq := abstractQuantifiers(script); nq != "" {
		// the same query with every quantified hypothesis forgotten: "unsat" carries over (fewer hypotheses), nothing else does
		n++
		go func() {
			st, out, secs := runSolverCtx(ctx, solvers[order[0]], nq, timeoutS)
			if st != "unsat" {
				st = "unknown"
			}
			ch <- ans{order[0], false, true, st, out, secs}
		}()
	}
	for _, i := range order {
		n++
		go func(i int) {
			st, out, secs := runSolverCtx(ctx, solvers[i], script, timeoutS)
			ch <- ans{i, false, false, st, out, secs}
		}(i)
		if lin != "" && i != 2 {
			n++
			go func(i int) {
				st, out, secs := runSolverCtx(ctx, solvers[i], lin, timeoutS)
				ch <- ans{i, true, false, st, out, secs}
			}(i)
		}
	}
	for k := 0; k < n; k++ {
		a := <-ch
		name := solvers[a.idx].name
		if a.lin {
			name += "(lin)"
		}
		if a.nq {
			name += "(nq)"
		}
		res.Tried = append(res.Tried, fmt.Sprintf("%s:%s:%.2fs", name, a.st, a.secs))
		if a.st == "unsat" || (a.st == "sat" && !a.lin) {
			res.Status, res.Solver, res.Output, res.Time, res.Linearized = a.st, name, a.out, a.secs, a.lin
			cancel()
			return res
		}
		if a.st == "timeout" {
			res.Status = "timeout"
		}
		if a.st == "error" && res.Output == "" {
			res.Output = a.out
		}
	}
	res.Time = time.Since(t0).Seconds()
	return res
}

// coneOfInfluence keeps the goal, the path condition and the hypotheses connected to them through shared constants
// (a given number of rounds; heap bases, allocation frontiers, string literals and constants that occur in more than a quarter
// of the hypotheses do not connect). Dropping hypotheses is sound for "unsat"; nothing else is concluded from such a
// query.
func coneOfInfluence(asserts []*smt.Term, rounds int, roots ...*smt.Term) []*smt.Term {
	hubName := func(n string) bool {
		return strings.HasPrefix(n, "H0_") || strings.HasPrefix(n, "v_H_") || strings.HasPrefix(n, "brk") || strings.HasPrefix(n, "v_brk") ||
			strings.HasPrefix(n, "str!") || n == "iface_nil" || strings.HasPrefix(n, "v_cut") || strings.HasPrefix(n, "v_loop")
	}
	memo := map[int]map[int]bool{}
	var constsOf func(t *smt.Term, into map[int]bool, seen map[int]bool)
	constsOf = func(t *smt.Term, into map[int]bool, seen map[int]bool) {
		if seen[t.ID] {
			return
		}
		seen[t.ID] = true
		if t.Kind == smt.KConst {
			if !hubName(t.Op) {
				into[t.ID] = true
			}
			return
		}
		for _, a := range t.Args {
			constsOf(a, into, seen)
		}
	}
	get := func(t *smt.Term) map[int]bool {
		if m, ok := memo[t.ID]; ok {
			return m
		}
		m := map[int]bool{}
		constsOf(t, m, map[int]bool{})
		memo[t.ID] = m
		return m
	}
	freq := map[int]int{}
	for _, a := range asserts {
		for id := range get(a) {
			freq[id]++
		}
	}
	limit := len(asserts)/4 + 4
	isRoot := map[*smt.Term]bool{}
	rel := map[int]bool{}
	for _, r := range roots {
		if r == nil {
			continue
		}
		isRoot[r] = true
		for id := range get(r) {
			if freq[id] <= limit {
				rel[id] = true
			}
		}
	}
	picked := map[int]bool{}
	for round := 0; round < rounds; round++ {
		add := map[int]bool{}
		for i, a := range asserts {
			if picked[i] {
				continue
			}
			hit := isRoot[a]
			if !hit {
				for id := range get(a) {
					if rel[id] {
						hit = true
						break
					}
				}
			}
			if hit {
				picked[i] = true
				for id := range get(a) {
					if freq[id] <= limit {
						add[id] = true
					}
				}
			}
		}
		for id := range add {
			rel[id] = true
		}
	}
	out := make([]*smt.Term, 0, len(picked))
	for i, a := range asserts {
		if picked[i] || isRoot[a] {
			out = append(out, a)
		}
	}
	return out
}

// dropOrphanBounds leaves out the hypotheses that only bound terms nothing else in the query mentions (the value ranges
// and allocation-frontier facts recorded for every value that was ever loaded make up most of a query, and the solvers
// pay for each of them in the arithmetic core). Dropping hypotheses is sound for "unsat"; a "sat" answer of such a
// query is confirmed on the full one before it counts.
func dropOrphanBounds(asserts []*smt.Term, keep ...*smt.Term) []*smt.Term {
	type info struct {
		subj []*smt.Term
	}
	bounds := map[int]*info{}
	for i, a := range asserts {
		var subj []*smt.Term
		ineq := false
		kept := false
		for _, k := range keep {
			kept = kept || k == a
		}
		if !kept && boundShape(a, &subj, &ineq) && ineq && len(subj) > 0 {
			bounds[i] = &info{subj}
		}
	}
	if len(bounds) == 0 {
		return asserts
	}
	reach := map[int]bool{}
	var visit func(t *smt.Term)
	visit = func(t *smt.Term) {
		if reach[t.ID] {
			return
		}
		reach[t.ID] = true
		for _, a := range t.Args {
			visit(a)
		}
		for _, ps := range t.Pats {
			for _, p := range ps {
				visit(p)
			}
		}
	}
	for i, a := range asserts {
		if bounds[i] == nil {
			visit(a)
		}
	}
	// a bound that mentions a reachable term is kept and makes the other terms it mentions reachable too (chains of
	// inequalities through terms that occur nowhere else); what remains unreachable at the fixpoint is dropped
	isBrk := func(t *smt.Term) bool {
		return t.Kind == smt.KConst && (strings.HasPrefix(t.Op, "brk") || strings.HasPrefix(t.Op, "v_brk"))
	}
	kept := map[int]bool{}
	for changed := true; changed; {
		changed = false
		for i := range asserts {
			b := bounds[i]
			if b == nil || kept[i] {
				continue
			}
			any, other := false, false
			for _, t := range b.subj {
				if isBrk(t) {
					continue
				}
				other = true
				if reach[t.ID] {
					any = true
				}
			}
			if any || !other {
				kept[i] = true
				changed = true
				for _, t := range b.subj {
					if !isBrk(t) {
						visit(t)
					}
				}
			}
		}
	}
	out := make([]*smt.Term, 0, len(asserts))
	for i, a := range asserts {
		if bounds[i] == nil || kept[i] {
			out = append(out, a)
		}
	}
	return out
}

// boundShape: t is built from and/not over comparisons of linear arithmetic; subj collects the maximal non-arithmetic
// subterms, ineq is set when an order comparison occurs.
func boundShape(t *smt.Term, subj *[]*smt.Term, ineq *bool) bool {
	if t.Kind == smt.KLit {
		return true
	}
	if t.Kind != smt.KApp {
		return false
	}
	switch t.Op {
	case "and", "not":
		for _, a := range t.Args {
			if !boundShape(a, subj, ineq) {
				return false
			}
		}
		return true
	case "<", "<=", ">", ">=", "=":
		if len(t.Args) != 2 || (t.Args[0].Sort != smt.Int && t.Args[0].Sort != smt.Real) {
			return false
		}
		if t.Op != "=" {
			*ineq = true
		}
		for _, a := range t.Args {
			arithSubjects(a, subj)
		}
		return true
	}
	return false
}

func arithSubjects(t *smt.Term, subj *[]*smt.Term) {
	if t.Kind == smt.KLit {
		return
	}
	if t.Kind == smt.KApp && (t.Op == "+" || t.Op == "-" || t.Op == "*") {
		for _, a := range t.Args {
			arithSubjects(a, subj)
		}
		return
	}
	*subj = append(*subj, t)
}

// abstractQuantifiers forgets the quantified parts of a script: every outermost quantified formula is replaced by a
// Boolean constant of its own (one constant per distinct text). The original script is the result with those constants
// given particular values, so "unsat" for the result is "unsat" for the original; nothing else carries over. "" when
// nothing is quantified or the script has a shape this textual pass does not handle.
func abstractQuantifiers(script string) string {
	if !strings.Contains(script, "(forall ") && !strings.Contains(script, "(exists ") {
		return ""
	}
	lines := strings.Split(script, "\n")
	out := make([]string, 0, len(lines)+16)
	names := map[string]string{}
	for _, l := range lines {
		if !strings.Contains(l, "(forall ") && !strings.Contains(l, "(exists ") {
			out = append(out, l)
			continue
		}
		if !strings.HasPrefix(l, "(define-fun ") && !strings.HasPrefix(l, "(assert ") {
			return ""
		}
		var sb strings.Builder
		rest := l
		for {
			i := strings.Index(rest, "(forall ")
			if j := strings.Index(rest, "(exists "); j >= 0 && (i < 0 || j < i) {
				i = j
			}
			if i < 0 {
				break
			}
			e := matchParen(rest[i:])
			if e < 0 {
				return ""
			}
			q := rest[i : i+e+1]
			nm, ok := names[q]
			if !ok {
				nm = fmt.Sprintf("aq!%d", len(names))
				names[q] = nm
				out = append(out, "(declare-fun "+nm+" () Bool)")
			}
			sb.WriteString(rest[:i])
			sb.WriteString(nm)
			rest = rest[i+e+1:]
		}
		sb.WriteString(rest)
		out = append(out, sb.String())
	}
	return strings.Join(out, "\n")
}

// parseValues parses the "(get-value ...)" answer into term-text -> value-text.
func parseValues(output string, n int) []string {
	i := strings.Index(output, "((")
	if i < 0 {
		return nil
	}
	s := output[i+1:]
	var vals []string
	for len(vals) < n {
		s = strings.TrimLeft(s, " \n\t")
		if len(s) == 0 || s[0] != '(' {
			break
		}
		// one pair "(term value)"
		end := matchParen(s)
		if end < 0 {
			break
		}
		pair := s[1:end]
		// term is first s-expr
		tl := sexprLen(pair)
		val := strings.TrimSpace(pair[tl:])
		vals = append(vals, val)
		s = s[end+1:]
	}
	return vals
}

func matchParen(s string) int {
	depth := 0
	for i, ch := range s {
		switch ch {
		case '(':
			depth++
		case ')':
			depth--
			if depth == 0 {
				return i
			}
		}
	}
	return -1
}

func sexprLen(s string) int {
	s2 := strings.TrimLeft(s, " \n\t")
	off := len(s) - len(s2)
	if len(s2) == 0 {
		return off
	}
	if s2[0] == '(' {
		return off + matchParen(s2) + 1
	}
	if s2[0] == '|' {
		j := strings.Index(s2[1:], "|")
		return off + j + 2
	}
	j := strings.IndexAny(s2, " \n\t)")
	if j < 0 {
		return len(s)
	}
	return off + j
}

func (ex *Exec) unfoldAllowed(name string) bool {
	if ex.FC == nil || ex.FC.Unfold == nil {
		return false
	}
	for _, u := range ex.FC.Unfold {
		if strings.HasPrefix(name, "rf_"+u+"_") || name == "rf_"+u {
			return true
		}
	}
	return false
}

// instCandidates returns the recorded index terms that occur in the obligation's goal or guard.
func (ex *Exec) instCandidates(o *Obligation) []*smt.Term {
	if len(ex.idxTerms) == 0 {
		return nil
	}
	present := map[int]bool{}
	var walk func(t *smt.Term)
	walk = func(t *smt.Term) {
		if present[t.ID] {
			return
		}
		present[t.ID] = true
		for _, a := range t.Args {
			walk(a)
		}
	}
	walk(o.Goal)
	walk(o.Guard)
	var out []*smt.Term
	for _, t := range ex.idxOrder {
		if present[t.ID] {
			out = append(out, t)
			if len(out) >= 10 {
				break
			}
		}
	}
	return out
}

// expandForall conjoins ground instances to universally quantified subformulas in positive positions
// (logically equivalent to the input; it only helps the solvers' instantiation).
func (ex *Exec) expandForall(t *smt.Term, cands []*smt.Term, pos bool, depth int) *smt.Term {
	c := ex.W.C
	if !c.HasQuant(t) {
		return t
	}
	// memo per query (shared subformulas of merged path conditions would otherwise be expanded once per path)
	key := [3]int{t.ID, depth, 0}
	if pos {
		key[2] = 1
	}
	if r, ok := ex.expMemo[key]; ok {
		return r
	}
	r := ex.expandForall1(t, cands, pos, depth)
	if ex.expMemo != nil {
		ex.expMemo[key] = r
	}
	return r
}

func (ex *Exec) expandForall1(t *smt.Term, cands []*smt.Term, pos bool, depth int) *smt.Term {
	c := ex.W.C
	switch t.Kind {
	case smt.KQuant:
		if !(pos && t.Op == "forall") && !(!pos && t.Op == "exists") {
			return t
		}
		if len(t.Bound) != 1 || t.Bound[0].Sort != smt.Int || depth == 0 {
			return t
		}
		parts := []*smt.Term{t}
		use := cands
		if !c.HasQuant(t.Args[0]) {
			use = append(append([]*smt.Term{}, cands...), ex.nbrCands...)
		}
		for _, cand := range use {
			inst := c.Subst(t.Args[0], map[*smt.Term]*smt.Term{t.Bound[0]: cand})
			inst = ex.expandForall(inst, cands, pos, depth-1)
			parts = append(parts, inst)
		}
		if t.Op == "forall" {
			return c.And(parts...)
		}
		return c.Or(parts...)
	case smt.KApp:
		switch t.Op {
		case "and", "or":
			args := make([]*smt.Term, len(t.Args))
			ch := false
			for i, a := range t.Args {
				args[i] = ex.expandForall(a, cands, pos, depth)
				if args[i] != a {
					ch = true
				}
			}
			if !ch {
				return t
			}
			if t.Op == "and" {
				return c.And(args...)
			}
			return c.Or(args...)
		case "not":
			a := ex.expandForall(t.Args[0], cands, !pos, depth)
			if a == t.Args[0] {
				return t
			}
			return c.Not(a)
		case "=>":
			a := ex.expandForall(t.Args[0], cands, !pos, depth)
			b := ex.expandForall(t.Args[1], cands, pos, depth)
			if a == t.Args[0] && b == t.Args[1] {
				return t
			}
			return c.Implies(a, b)
		}
	}
	return t
}

// goalConjuncts flattens a goal into conjuncts; an equation between datatype values one side of which is a
// constructor application is replaced by the field-wise equations.
func (ex *Exec) goalConjuncts(g *smt.Term) []*smt.Term {
	c := ex.W.C
	var out []*smt.Term
	var rec func(t *smt.Term, depth int)
	rec = func(t *smt.Term, depth int) {
		if t.Kind == smt.KApp && t.Op == "=>" && len(t.Args) == 2 && depth < 4 {
			// A => (B1 and B2)  splits into  A => B1,  A => B2
			save := out
			out = nil
			rec(t.Args[1], depth+1)
			parts := out
			out = save
			if len(parts) > 1 {
				for _, p := range parts {
					out = append(out, c.Implies(t.Args[0], p))
				}
				return
			}
		}
		if t.Kind == smt.KApp && t.Op == "and" && depth < 4 {
			for _, a := range t.Args {
				rec(a, depth+1)
			}
			return
		}
		if t.Kind == smt.KApp && t.Op == "=" && len(t.Args) == 2 && depth < 4 && t.Args[0].Sort.IsBV() && t.Args[0].Sort.BVWidth() > 1 && t.Args[0].Sort.BVWidth() <= 16 {
			// an equation between bit-vectors is proved bit by bit (each bit usually depends on few branches)
			w := t.Args[0].Sort.BVWidth()
			for k := 0; k < w; k++ {
				ext := fmt.Sprintf("(_ extract %d %d)", k, k)
				out = append(out, c.Eq(c.App(ext, smt.BVSort(1), t.Args[0]), c.App(ext, smt.BVSort(1), t.Args[1])))
			}
			return
		}
		if t.Kind == smt.KApp && t.Op == "=" && len(t.Args) == 2 && depth < 4 {
			if dt := ex.W.DT(t.Args[0].Sort); dt != nil && dt != ex.W.SliceDT {
				a, b := t.Args[0], t.Args[1]
				if (a.Kind == smt.KApp && a.Op == dt.Ctor) || (b.Kind == smt.KApp && b.Op == dt.Ctor) {
					for i := range dt.Fields {
						rec(c.Eq(c.Field(dt, i, a), c.Field(dt, i, b)), depth+1)
					}
					return
				}
			}
		}
		out = append(out, t)
	}
	rec(g, 0)
	return out
}

// skolemize replaces universally quantified variables in positive positions of a goal (and existential ones
// in negative positions) by fresh constants; the result is valid iff the input is. It does not descend below a
// quantifier it leaves in place.
func (ex *Exec) skolemize(t *smt.Term, pos bool, n *int, sks *[]*smt.Term) *smt.Term {
	c := ex.W.C
	if !c.HasQuant(t) {
		return t
	}
	key := [3]int{t.ID, 0, 0}
	if pos {
		key[2] = 1
	}
	if ex.skMemo != nil {
		if r, ok := ex.skMemo[key]; ok {
			return r
		}
	}
	r := ex.skolemize1(t, pos, n, sks)
	if ex.skMemo != nil {
		ex.skMemo[key] = r
	}
	return r
}

func (ex *Exec) skolemize1(t *smt.Term, pos bool, n *int, sks *[]*smt.Term) *smt.Term {
	c := ex.W.C
	switch t.Kind {
	case smt.KQuant:
		if (pos && t.Op == "forall") || (!pos && t.Op == "exists") {
			m := map[*smt.Term]*smt.Term{}
			for _, b := range t.Bound {
				k := c.Const(fmt.Sprintf("sk!%d!%s", *n, smt.Mangle(b.Op)), b.Sort)
				*n++
				m[b] = k
				*sks = append(*sks, k)
			}
			return ex.skolemize(c.Subst(t.Args[0], m), pos, n, sks)
		}
		return t
	case smt.KApp:
		switch t.Op {
		case "and", "or":
			args := make([]*smt.Term, len(t.Args))
			for i, a := range t.Args {
				args[i] = ex.skolemize(a, pos, n, sks)
			}
			if t.Op == "and" {
				return c.And(args...)
			}
			return c.Or(args...)
		case "not":
			return c.Not(ex.skolemize(t.Args[0], !pos, n, sks))
		case "=>":
			return c.Implies(ex.skolemize(t.Args[0], !pos, n, sks), ex.skolemize(t.Args[1], pos, n, sks))
		case "ite":
			if t.Sort == smt.Bool && !c.HasQuant(t.Args[0]) {
				return c.Ite(t.Args[0], ex.skolemize(t.Args[1], pos, n, sks), ex.skolemize(t.Args[2], pos, n, sks))
			}
		}
	}
	return t
}

// expandByMatching conjoins, to universally quantified subformulas in positive positions, their instances at the
// values that make one of their array reads coincide with a ground read of the same array (see buildQueryFull).
func (ex *Exec) expandByMatching(t *smt.Term, grounds map[int][]*smt.Term, pos bool, budget *int, added *[]*smt.Term) *smt.Term {
	c := ex.W.C
	if *budget <= 0 || !c.HasQuant(t) {
		return t
	}
	key := [3]int{t.ID, 0, 0}
	if pos {
		key[2] = 1
	}
	if ex.matchMemo != nil {
		if r, ok := ex.matchMemo[key]; ok {
			return r
		}
	}
	r := ex.expandByMatching1(t, grounds, pos, budget, added)
	if ex.matchMemo != nil {
		ex.matchMemo[key] = r
	}
	return r
}

func (ex *Exec) expandByMatching1(t *smt.Term, grounds map[int][]*smt.Term, pos bool, budget *int, added *[]*smt.Term) *smt.Term {
	c := ex.W.C
	switch t.Kind {
	case smt.KQuant:
		if !(pos && t.Op == "forall") || len(t.Bound) != 1 || t.Bound[0].Sort != smt.Int {
			return t
		}
		bv := t.Bound[0]
		// the reads of the body whose index is  bv  or  x + bv / bv + x  with bv-free array and x
		type rd struct {
			arr, off *smt.Term
		}
		var reads []rd
		seen := map[int]bool{}
		var walk func(u *smt.Term)
		walk = func(u *smt.Term) {
			if seen[u.ID] || !c.HasVar(u) {
				return
			}
			seen[u.ID] = true
			if u.Kind == smt.KApp && u.Op == "select" && len(u.Args) == 2 && !c.HasVar(u.Args[0]) {
				idx := u.Args[1]
				switch {
				case idx == bv:
					reads = append(reads, rd{u.Args[0], nil})
				case idx.Kind == smt.KApp && idx.Op == "+" && len(idx.Args) == 2 && idx.Args[1] == bv && !c.HasVar(idx.Args[0]):
					reads = append(reads, rd{u.Args[0], idx.Args[0]})
				case idx.Kind == smt.KApp && idx.Op == "+" && len(idx.Args) == 2 && idx.Args[0] == bv && !c.HasVar(idx.Args[1]):
					reads = append(reads, rd{u.Args[0], idx.Args[1]})
				}
			}
			if u.Kind == smt.KQuant {
				return
			}
			for _, a := range u.Args {
				walk(a)
			}
		}
		walk(t.Args[0])
		parts := []*smt.Term{t}
		done := map[int]bool{}
		for _, r := range reads {
			for _, g := range grounds[r.arr.ID] {
				q := g
				if r.off != nil {
					if g.Kind == smt.KApp && g.Op == "+" && len(g.Args) == 2 && g.Args[0] == r.off {
						q = g.Args[1]
					} else {
						q = c.Sub(g, r.off)
					}
				}
				if done[q.ID] || *budget <= 0 {
					continue
				}
				done[q.ID] = true
				*budget--
				inst := c.Subst(t.Args[0], map[*smt.Term]*smt.Term{bv: q})
				parts = append(parts, inst)
				*added = append(*added, inst)
			}
		}
		if len(parts) == 1 {
			return t
		}
		return c.And(parts...)
	case smt.KApp:
		switch t.Op {
		case "and", "or":
			args := make([]*smt.Term, len(t.Args))
			ch := false
			for i, a := range t.Args {
				args[i] = ex.expandByMatching(a, grounds, pos, budget, added)
				if args[i] != a {
					ch = true
				}
			}
			if !ch {
				return t
			}
			if t.Op == "and" {
				return c.And(args...)
			}
			return c.Or(args...)
		case "not":
			a := ex.expandByMatching(t.Args[0], grounds, !pos, budget, added)
			if a == t.Args[0] {
				return t
			}
			return c.Not(a)
		case "=>":
			a := ex.expandByMatching(t.Args[0], grounds, !pos, budget, added)
			b := ex.expandByMatching(t.Args[1], grounds, pos, budget, added)
			if a == t.Args[0] && b == t.Args[1] {
				return t
			}
			return c.Implies(a, b)
		}
	}
	return t
}

package main

import (
	"bytes"
	"context"
	"fmt"
	"os/exec"
	"strings"
	"time"

	"govc/smt"
)

type SolveResult struct {
	Status  string // unsat | sat | unknown | timeout | error
	Solver  string
	Time    float64
	Model   map[string]string
	Output  string
	Tried   []string
}

type solverSpec struct {
	name string
	cmd  func(timeoutS int) []string
	pre  string
}

var solvers = []solverSpec{
	{"z3-new", func(t int) []string { return []string{"z3-new", "-in", fmt.Sprintf("-T:%d", t)} }, ""},
	{"z3", func(t int) []string { return []string{"z3", "-in", fmt.Sprintf("-T:%d", t)} }, ""},
	{"cvc5", func(t int) []string {
		return []string{"cvc5", "--lang=smt2", fmt.Sprintf("--tlimit=%d", t*1000), "--produce-models"}
	}, "(set-logic ALL)\n"},
}

// buildQuery renders the SMT script for an obligation.
func (ex *Exec) buildQuery(o *Obligation, modelTerms []*smt.Term) string {
	c := ex.W.C
	var asserts []*smt.Term
	asserts = append(asserts, ex.assumes[:o.NAssume]...)
	asserts = append(asserts, o.Guard)
	if !o.ExpectSat {
		asserts = append(asserts, c.Not(o.Goal))
	}
	// string literal facts
	used := map[string]bool{}
	seen := map[int]bool{}
	for _, a := range asserts {
		smt.Symbols(a, used, seen)
	}
	asserts = append(asserts, ex.W.StrFacts(used)...)
	footer := "(check-sat)\n"
	if len(modelTerms) > 0 {
		var sb strings.Builder
		sb.WriteString("(get-value (")
		for _, t := range modelTerms {
			sb.WriteString(t.String())
			sb.WriteByte(' ')
		}
		sb.WriteString("))\n")
		footer += sb.String()
	}
	return c.Script("", asserts, footer, modelTerms...)
}

func runSolver(sp solverSpec, script string, timeoutS int) (status, output string, secs float64) {
	args := sp.cmd(timeoutS)
	ctx, cancel := context.WithTimeout(context.Background(), time.Duration(timeoutS+2)*time.Second)
	defer cancel()
	cmd := exec.CommandContext(ctx, args[0], args[1:]...)
	cmd.Stdin = strings.NewReader(sp.pre + script)
	var out bytes.Buffer
	cmd.Stdout = &out
	cmd.Stderr = &out
	t0 := time.Now()
	_ = cmd.Run()
	secs = time.Since(t0).Seconds()
	output = out.String()
	first := strings.TrimSpace(strings.SplitN(output, "\n", 2)[0])
	switch first {
	case "unsat", "sat", "unknown":
		status = first
	default:
		if ctx.Err() != nil || strings.Contains(output, "timeout") || strings.Contains(output, "interrupted") {
			status = "timeout"
		} else {
			status = "error"
		}
	}
	return
}

// Solve tries the solvers in order until one gives a definite answer.
func Solve(script string, timeoutS int, order []int) *SolveResult {
	res := &SolveResult{Status: "unknown"}
	t0 := time.Now()
	for _, i := range order {
		sp := solvers[i]
		st, out, secs := runSolver(sp, script, timeoutS)
		res.Tried = append(res.Tried, fmt.Sprintf("%s:%s:%.2fs", sp.name, st, secs))
		if st == "unsat" || st == "sat" {
			res.Status = st
			res.Solver = sp.name
			res.Output = out
			res.Time = time.Since(t0).Seconds()
			return res
		}
		if st == "error" && res.Output == "" {
			res.Output = out
		}
		if st == "timeout" && res.Status == "unknown" {
			res.Status = "timeout"
		}
	}
	res.Time = time.Since(t0).Seconds()
	return res
}

// parseValues parses the "(get-value ...)" answer into term-text -> value-text.
func parseValues(output string, n int) []string {
	i := strings.Index(output, "((")
	if i < 0 {
		return nil
	}
	s := output[i+1:]
	var vals []string
	for len(vals) < n {
		s = strings.TrimLeft(s, " \n\t")
		if len(s) == 0 || s[0] != '(' {
			break
		}
		// one pair "(term value)"
		end := matchParen(s)
		if end < 0 {
			break
		}
		pair := s[1:end]
		// term is first s-expr
		tl := sexprLen(pair)
		val := strings.TrimSpace(pair[tl:])
		vals = append(vals, val)
		s = s[end+1:]
	}
	return vals
}

func matchParen(s string) int {
	depth := 0
	for i, ch := range s {
		switch ch {
		case '(':
			depth++
		case ')':
			depth--
			if depth == 0 {
				return i
			}
		}
	}
	return -1
}

func sexprLen(s string) int {
	s2 := strings.TrimLeft(s, " \n\t")
	off := len(s) - len(s2)
	if len(s2) == 0 {
		return off
	}
	if s2[0] == '(' {
		return off + matchParen(s2) + 1
	}
	if s2[0] == '|' {
		j := strings.Index(s2[1:], "|")
		return off + j + 2
	}
	j := strings.IndexAny(s2, " \n\t)")
	if j < 0 {
		return len(s)
	}
	return off + j
}

package main

import (
	"encoding/json"
	"flag"
	"fmt"
	"os"
	"path/filepath"
	"regexp"
	"sort"
	"strconv"
	"strings"
	"time"
)

type PropConfig struct {
	ID        string   `json:"id"`
	Functions []string `json:"functions"`
	Include   string   `json:"include"` // regexp over obligation names; empty = all
	Exclude   string   `json:"exclude"`
	Assume    []string `json:"assumptions"`
	Residual  string   `json:"residual"`
	Lemmas    []string `json:"lemmas"`
	Core      []string `json:"core"` // regexps: generated obligations matching one of them must be claimed in the quick tier (guards against the silent loss of the obligations that carry the property)
}

type KnownFinding struct {
	Property   string `json:"property"`
	Obligation string `json:"obligation"`
	Witness    string `json:"witness"`
	What       string `json:"what"`
}

type KnownFile struct {
	Findings []KnownFinding `json:"findings"`
	Fixed    []string       `json:"fixed"`
}

var panicKinds = map[string]bool{"bounds": true, "nil": true, "div": true, "slice": true, "makeslice": true, "typeassert": true, "panic": true, "nilmap": true}

func readLines(path string) map[string]bool {
	out := map[string]bool{}
	data, err := os.ReadFile(path)
	if err != nil {
		return out
	}
	for _, ln := range strings.Split(string(data), "\n") {
		ln = strings.TrimSpace(ln)
		if ln == "" || strings.HasPrefix(ln, "#") {
			continue
		}
		out[ln] = true
	}
	return out
}

func cmdCheck(args []string) {
	fs := flag.NewFlagSet("check", flag.ExitOnError)
	repo := fs.String("repo", "/repo", "repository")
	vdir := fs.String("verif", "/verif", "verif directory")
	prop := fs.String("prop", "", "property id")
	tier := fs.String("tier", "quick", "quick|thorough")
	workers := fs.Int("j", 8, "parallel solver processes")
	writeClaims := fs.Bool("write-claims", false, "(maintenance) rewrite the claims file from this run; never used by registered commands")
	verbose := fs.Bool("v", false, "verbose")
	outDir := fs.String("out", "", "directory for evidence/ and replay/ output (default: the verif directory)")
	fs.Parse(args)
	if *outDir == "" {
		*outDir = *vdir
	}
	t0 := time.Now()
	seed := 0
	if s := os.Getenv("VERIF_SEED"); s != "" {
		seed, _ = strconv.Atoi(s)
	}
	if t := os.Getenv("VERIF_TIER"); t == "quick" || t == "thorough" {
		*tier = t
	}
	var cfg PropConfig
	data, err := os.ReadFile(filepath.Join(*vdir, "props", *prop+".json"))
	if err != nil {
		fmt.Fprintln(os.Stderr, "no property config:", err)
		os.Exit(2)
	}
	if err := json.Unmarshal(data, &cfg); err != nil {
		fmt.Fprintln(os.Stderr, "bad property config:", err)
		os.Exit(2)
	}
	timeout := 20
	if *tier == "thorough" {
		timeout = 60
	}
	claims := readLines(filepath.Join(*vdir, "claims", *prop+".quick"))
	if *tier == "thorough" {
		for k := range readLines(filepath.Join(*vdir, "claims", *prop+".thorough")) {
			claims[k] = true
		}
	}
	var kf KnownFile
	if data, err := os.ReadFile(filepath.Join(*vdir, "known_findings.json")); err == nil {
		json.Unmarshal(data, &kf)
	}
	known := map[string]KnownFinding{}
	for _, f := range kf.Findings {
		if f.Property == *prop {
			known[f.Obligation] = f
		}
	}

	p, err := LoadProgram(*repo)
	if err != nil {
		// the tree does not build with the verif tag: nothing can be decided
		fmt.Fprintln(os.Stderr, "cannot load repository:", err)
		os.Exit(2)
	}
	loadS := time.Since(t0).Seconds()
	var inc, exc *regexp.Regexp
	if cfg.Include != "" {
		inc = regexp.MustCompile(cfg.Include)
	}
	if cfg.Exclude != "" {
		exc = regexp.MustCompile(cfg.Exclude)
	}
	var all []*OblResult
	var frs []*FuncResult
	fnErr := map[string]string{}
	for _, key := range cfg.Functions {
		fr, _ := verifyFunc(p, key)
		frs = append(frs, fr)
		if fr.Err != "" {
			fnErr[key] = fr.Err
			continue
		}
		for _, o := range fr.Obls {
			if inc != nil && !inc.MatchString(o.Obl.Name) && o.Obl.Kind != "cover" {
				continue
			}
			if exc != nil && exc.MatchString(o.Obl.Name) {
				continue
			}
			all = append(all, o)
		}
	}
	// core obligations must be claimed: a claim file that lost one of them no longer decides the property
	if !*writeClaims {
		var lost []string
		// claims/<id>.core: names that must stay claimed (the obligations that carry the property's labelled clauses)
		gen := map[string]bool{}
		for _, r := range all {
			gen[r.Obl.Name] = true
		}
		for name := range readLines(filepath.Join(*vdir, "claims", *prop+".core")) {
			if _, isKnown := known[name]; gen[name] && !claims[name] && !isKnown {
				lost = append(lost, name)
			}
		}
		for _, pat := range cfg.Core {
			re := regexp.MustCompile(pat)
			matched := false
			for _, r := range all {
				if re.MatchString(r.Obl.Name) {
					matched = true
					if _, isKnown := known[r.Obl.Name]; !claims[r.Obl.Name] && !isKnown {
						lost = append(lost, r.Obl.Name)
					}
				}
			}
			if !matched && len(fnErr) == 0 {
				// (a change to the code that removes the obligation altogether is reported below, as a vanished claim)
				found := false
				for k := range claims {
					if re.MatchString(k) {
						found = true
					}
				}
				if !found {
					lost = append(lost, "(no obligation matches core pattern "+pat+")")
				}
			}
		}
		if len(lost) > 0 {
			sort.Strings(lost)
			for _, n := range lost {
				fmt.Println("UNCLAIMED-CORE:", n)
			}
			fmt.Println("error: core obligations of", *prop, "are not claimed; the claim files must be repaired (maintenance), nothing is reported")
			os.Exit(2)
		}
	}
	if os.Getenv("GOVC_WRITE_ALL") != "" {
		// maintenance: record the names generated on this (baseline) tree without touching the claims
		var allNames []string
		for _, r := range all {
			allNames = append(allNames, r.Obl.Name)
		}
		sort.Strings(allNames)
		os.WriteFile(filepath.Join(*vdir, "claims", *prop+".all"), []byte(strings.Join(allNames, "\n")+"\n"), 0o644)
		fmt.Println("wrote", len(allNames), "names")
		os.Exit(0)
	}
	if os.Getenv("GOVC_LIST_UNCLAIMED") != "" {
		// maintenance aid: contract-labelled obligations that are generated but not claimed in this tier
		for _, r := range all {
			if !claims[r.Obl.Name] && !panicKinds[r.Obl.Kind] && r.Obl.Kind != "cover" {
				fmt.Println("UNCLAIMED:", r.Obl.Name)
			}
		}
		os.Exit(0)
	}
	genS := time.Since(t0).Seconds() - loadS
	order := []int{0, 1, 2}
	// quick tier: only the claimed obligations (and listed findings, and the vacuity guards that were
	// satisfiable on the baseline) are attempted; everything else is reported as not attempted
	notAttempted := 0
	var openObls []string // contract-labelled obligations that are generated but not claimed (hence not proved) in this tier
	for _, r := range all {
		_, isKnown := known[r.Obl.Name]
		if !claims[r.Obl.Name] && !isKnown && !panicKinds[r.Obl.Kind] && r.Obl.Kind != "cover" {
			openObls = append(openObls, r.Obl.Name)
		}
	}
	sort.Strings(openObls)
	// names generated on the baseline (written with the claims): a panic-kind obligation whose name is not among them
	// comes from code that did not exist then -- it is attempted, and reported if (and only if) its counterexample
	// replays as a panic on the real code
	baselineAll := readLines(filepath.Join(*vdir, "claims", *prop+".all"))
	newSite := map[string]bool{}
	if len(baselineAll) > 0 && !*writeClaims {
		for _, r := range all {
			if _, isKnown := known[r.Obl.Name]; !claims[r.Obl.Name] && !isKnown && panicKinds[r.Obl.Kind] && !baselineAll[r.Obl.Name] {
				newSite[r.Obl.Name] = true
			}
		}
	}
	if *tier == "quick" && !*writeClaims {
		var sel []*OblResult
		for _, r := range all {
			if claims[r.Obl.Name] || newSite[r.Obl.Name] {
				sel = append(sel, r)
			} else if _, isKnown := known[r.Obl.Name]; isKnown {
				sel = append(sel, r)
			} else {
				notAttempted++
			}
		}
		all = sel
	}
	solveAll(all, timeout, *workers, order)
	byName := map[string]*OblResult{}
	for _, r := range all {
		byName[r.Obl.Name] = r
	}

	if *writeClaims {
		var names []string
		limit := 5.0
		if *tier == "thorough" {
			limit = 40.0
		}
		for _, r := range all {
			t := r.Res.Time
			if r.Res.MaxPart > 0 {
				t = r.Res.MaxPart
			}
			if r.Status == "discharged" && t <= limit {
				names = append(names, r.Obl.Name)
			}
			if r.Status == "cover-ok" && r.Res.Time <= 2.0 {
				names = append(names, r.Obl.Name)
			}
		}
		sort.Strings(names)
		os.MkdirAll(filepath.Join(*vdir, "claims"), 0o755)
		if *tier == "quick" {
			var allNames []string
			for _, r := range all {
				allNames = append(allNames, r.Obl.Name)
			}
			sort.Strings(allNames)
			os.WriteFile(filepath.Join(*vdir, "claims", *prop+".all"), []byte(strings.Join(allNames, "\n")+"\n"), 0o644)
		}
		os.WriteFile(filepath.Join(*vdir, "claims", *prop+"."+*tier), []byte(strings.Join(names, "\n")+"\n"), 0o644)
		fmt.Printf("wrote %d claims\n", len(names))
	}

	// classification
	violations := 0
	var vioLines []string
	discharged, claimedN := 0, 0
	bySolver := map[string]int{}
	solverTime := 0.0
	var undecided, newFailing, knownLines []string
	coversChecked := 0
	coverOK := true
	var coverFail []string
	coverUnknown := 0
	replayDir := filepath.Join(*outDir, "replay", *prop)
	os.MkdirAll(replayDir, 0o755)
	report := func(name, reason string, r *OblResult) {
		violations++
		path := filepath.Join(replayDir, smtFileName(name)+".json")
		tail := ""
		rep := map[string]interface{}{"property": *prop, "obligation": name, "reason": reason}
		replayed := false
		if r != nil {
			rep["solver_status"] = r.Res.Status
			rep["solver_tried"] = r.Res.Tried
			rep["position"] = r.Obl.Pos.String()
			if r.Res.Status == "sat" {
				rr := tryReplay(p, r, *vdir, replayDir)
				rep["replay"] = rr
				replayed = rr != nil && rr.Reproduced
			}
			os.WriteFile(filepath.Join(replayDir, smtFileName(name)+".smt2"), []byte(r.Script), 0o644)
			rep["smt_script"] = filepath.Join(replayDir, smtFileName(name)+".smt2")
			rep["solver_output"] = truncate(r.Res.Output, 4000)
		}
		if !replayed {
			tail = " no-failing-input-found"
		}
		js, _ := json.MarshalIndent(rep, "", " ")
		os.WriteFile(path, js, 0o644)
		vioLines = append(vioLines, fmt.Sprintf("VIOLATION property=%s replay=%s obligation=%s reason=%s%s", *prop, path, name, reason, tail))
	}
	var claimNames []string
	for k := range claims {
		claimNames = append(claimNames, k)
	}
	sort.Strings(claimNames)
	for _, name := range claimNames {
		claimedN++
		r, ok := byName[name]
		if !ok {
			// claimed obligation no longer generated
			fnKey := name[:strings.Index(name, "#")]
			kind := name[strings.Index(name, "#")+1:]
			if i := strings.Index(kind, ":"); i >= 0 {
				kind = kind[:i]
			}
			if e, bad := fnErr[fnKey]; bad {
				report(name, "contract-no-longer-matches-code: "+firstLine(e), nil)
				continue
			}
			if panicKinds[kind] || kind == "cover" {
				// the indexed expression no longer exists: nothing to prove for it
				claimedN--
				continue
			}
			report(name, "claimed-obligation-vanished", nil)
			continue
		}
		switch r.Status {
		case "discharged":
			discharged++
			bySolver[r.Res.Solver]++
			solverTime += r.Res.Time
		case "cover-ok", "cover-unknown":
			// vacuity guard that was satisfiable on the baseline: not a proof obligation
			claimedN--
			coversChecked++
		case "cover-fail":
			claimedN--
		default:
			if f, isKnown := known[name]; isKnown {
				knownLines = append(knownLines, fmt.Sprintf("KNOWN-FINDING: property=%s %s [%s]", *prop, f.What, name))
				claimedN--
				continue
			}
			report(name, r.Status, r)
		}
	}
	var newSitesOpen []string
	for _, r := range all {
		if !newSite[r.Obl.Name] || r.Status == "discharged" {
			continue
		}
		if r.Status == "refuted" {
			if rr := tryReplay(p, r, *vdir, replayDir); rr != nil && rr.Reproduced {
				report(r.Obl.Name, "new-panic-site", r)
				continue
			}
		}
		newSitesOpen = append(newSitesOpen, r.Obl.Name+" ["+r.Status+"]")
	}
	sort.Strings(newSitesOpen)
	for _, r := range all {
		if r.Obl.Kind == "cover" {
			if r.Status == "cover-fail" {
				coverOK = false
				coverFail = append(coverFail, r.Obl.Name)
			} else if r.Status != "cover-ok" {
				coverUnknown++
			}
			continue
		}
		if claims[r.Obl.Name] {
			continue
		}
		if f, isKnown := known[r.Obl.Name]; isKnown {
			if r.Status != "discharged" {
				knownLines = append(knownLines, fmt.Sprintf("KNOWN-FINDING: property=%s %s [%s]", *prop, f.What, r.Obl.Name))
			} else {
				fmt.Printf("note: known finding %s no longer reproduces\n", r.Obl.Name)
			}
			continue
		}
		if r.Status != "discharged" {
			undecided = append(undecided, r.Obl.Name+" ["+r.Status+"]")
		}
	}
	_ = newFailing
	for _, l := range knownLines {
		fmt.Println(l)
	}
	for _, l := range vioLines {
		fmt.Println(l)
	}
	if *verbose {
		for _, r := range all {
			fmt.Printf("%-12s %-7s %5.2fs  %s\n", r.Status, r.Res.Solver, r.Res.Time, r.Obl.Name)
		}
		for k, e := range fnErr {
			fmt.Printf("ERROR %s: %s\n", k, e)
		}
	}
	// evidence
	var fnInfo []map[string]interface{}
	abstrAll := map[string]bool{}
	for _, fr := range frs {
		fnInfo = append(fnInfo, map[string]interface{}{"function": fr.Key, "ssa_instructions": fr.NInstr, "abstracted": fr.Abstr, "unsound_constructs": fr.Unsound, "error": fr.Err})
		for _, a := range fr.Abstr {
			abstrAll[fr.Key+": "+a] = true
		}
	}
	samples := []map[string]string{}
	{
		// the three smallest discharged claimed queries of this run, written out
		var cands []*OblResult
		for _, r := range all {
			if claims[r.Obl.Name] && r.Status == "discharged" && r.Obl.Kind != "cover" && r.Script != "" {
				cands = append(cands, r)
			}
		}
		sort.SliceStable(cands, func(i, j int) bool { return len(cands[i].Script) < len(cands[j].Script) })
		for _, r := range cands {
			if len(samples) >= 3 {
				break
			}
			samples = append(samples, map[string]string{"obligation": r.Obl.Name, "smtlib": truncate(r.Script, 20000), "answer": r.Res.Status, "solver": r.Res.Solver})
		}
	}
	assumptions := append([]string{}, baseAssumptions...)
	assumptions = append(assumptions, cfg.Assume...)
	for _, pc := range p.contracts {
		for _, a := range pc.Assumes {
			assumptions = append(assumptions, "contract assume: "+a)
		}
	}
	sort.Strings(assumptions[len(baseAssumptions)+len(cfg.Assume):])
	for _, n := range openObls {
		assumptions = append(assumptions, "OPEN OBLIGATION (generated from the contracts, not claimed, so not proved; what depends on it is conditional): "+n)
	}
	var ab []string
	for a := range abstrAll {
		ab = append(ab, a)
	}
	sort.Strings(ab)
	sort.Strings(undecided)
	ev := map[string]interface{}{
		"property_id": *prop, "tier": *tier, "seed": seed, "level": "proof",
		"coverage": map[string]interface{}{
			"obligations": claimedN, "discharged": discharged,
			"checker_cmd":                           fmt.Sprintf("/verif/bin/govc check --prop %s --tier %s  (VC generation over go/ssa of /repo working tree; z3 5.1.0, z3 4.8.12, cvc5 1.0)", *prop, *tier),
			"trusted_base":                          trustedBase,
			"functions":                             fnInfo,
			"open_contract_obligations":             openObls,
			"new_panic_sites_not_reproduced":        newSitesOpen,
			"by_solver":                             bySolver,
			"solver_time_s":                         solverTime,
			"generated_obligations":                 len(all),
			"unclaimed_undecided":                   undecided,
			"known_findings":                        knownLines,
			"cover_ok":                              coverOK,
			"cover_unreachable":                     coverFail,
			"cover_inconclusive":                    coverUnknown,
			"covers_checked":                        coversChecked,
			"unclaimed_not_attempted_in_quick_tier": notAttempted,
			"samples":                               samples,
			"abstracted":                            ab,
			"residual_not_decided":                  cfg.Residual,
			"load_s":                                loadS, "vcgen_s": genS,
		},
		"assumptions": assumptions,
		"wall_s":      time.Since(t0).Seconds(),
		"violations":  violations,
	}
	js, _ := json.MarshalIndent(ev, "", " ")
	os.MkdirAll(filepath.Join(*outDir, "evidence"), 0o755)
	os.WriteFile(filepath.Join(*outDir, "evidence", *prop+".json"), js, 0o644)
	fmt.Printf("property %s tier %s: %d/%d claimed obligations discharged, %d generated, %d known findings, %d violations, %.1fs\n",
		*prop, *tier, discharged, claimedN, len(all), len(knownLines), violations, time.Since(t0).Seconds())
	if len(coverFail) > 0 {
		// a path that the contracts make unreachable would make every obligation on it vacuously true
		for _, n := range coverFail {
			fmt.Println("BROKEN-CONTRACT: unreachable continuation (vacuity guard):", n)
		}
		if violations > 0 {
			os.Exit(1) // violations were found as well: they decide
		}
		os.Exit(2)
	}
	if claimedN == 0 || discharged == 0 {
		fmt.Println("error: no obligations claimed/discharged (vacuous check)")
		os.Exit(2)
	}
	if violations > 0 {
		os.Exit(1)
	}
}

var baseAssumptions = []string{
	"govc's SSA-to-SMT translation and contract evaluator are trusted (hand-built VC generator)",
	"go/types and x/tools/go/ssa v0.29.0 represent the source faithfully",
	"one solver 'unsat' answer is trusted (z3 5.1.0, z3 4.8.12, cvc5 1.0)",
	"signed integers are mathematical (no overflow check); unsigned integers wrap exactly; float64 is real arithmetic",
	"distinct heap objects are distinguished by reference; interior pointers passed as arguments do not alias other parameters' fields",
	"no concurrent mutation during a call (mutexes, goroutines, channels are not modelled)",
	"calls into code outside the module do not modify module-typed state except through slice/pointer arguments; unknown callees, interface calls and closures havoc all modelled state",
	"pointer receivers are non-nil",
}

var trustedBase = []string{"govc (this repository's VC generator)", "golang.org/x/tools/go/ssa v0.29.0", "go/types (go1.23.5)", "z3 5.1.0", "z3 4.8.12", "cvc5 1.0"}

func smtFileName(name string) string {
	s := regexp.MustCompile(`[^A-Za-z0-9_.-]+`).ReplaceAllString(name, "_")
	if len(s) > 150 {
		s = s[:150]
	}
	return s
}

func truncate(s string, n int) string {
	if len(s) > n {
		return s[:n] + "..."
	}
	return s
}

func firstLine(s string) string {
	if i := strings.Index(s, "\n"); i >= 0 {
		return s[:i]
	}
	return s
}

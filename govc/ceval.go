package main

import (
	"fmt"
	"go/constant"
	"go/types"
	"math/big"
	"sort"
	"strconv"
	"strings"

	"golang.org/x/tools/go/ssa"

	"govc/smt"
)

// CEnv evaluates contract expressions over a symbolic state.
type CEnv struct {
	atInstr       ssa.Instruction // evaluation point inside atBlock: just before this instruction (cut clauses)
	lastLocalAddr *Addr           // address of the local variable last resolved by lookupLocal (nil if it is a register)
	ex            *Exec
	fr            *Frame
	st            *State
	old           *State
	vars          map[string]Val
	over          map[ssa.Value]Val
	atBlock       *ssa.BasicBlock
	atEnd         bool
	pkg           *types.Package
	pc            *PkgContracts
	cl            *Clause
	depth         int
	boundNames    map[string]bool
	entryVals     bool
	loop          *loopInfo // set while evaluating a loop assertion: head(e) refers to the loop-head values
}

func (ex *Exec) envFor(fr *Frame, st, old *State, over map[ssa.Value]Val) *CEnv {
	env := &CEnv{ex: ex, fr: fr, st: st, old: old, vars: map[string]Val{}, over: over}
	if fr != nil {
		env.pkg = pkgOf(fr.fn)
		env.pc = fr.pc
		for _, p := range fr.fn.Params {
			if v, ok := fr.vals[p]; ok {
				env.vars[p.Name()] = v
			}
		}
	}
	return env
}

func (e *CEnv) sub() *CEnv {
	n := *e
	n.vars = make(map[string]Val, len(e.vars))
	for k, v := range e.vars {
		n.vars[k] = v
	}
	n.boundNames = make(map[string]bool, len(e.boundNames))
	for k := range e.boundNames {
		n.boundNames[k] = true
	}
	return &n
}

func (e *CEnv) fail(format string, a ...interface{}) {
	e.ex.contractError(e.cl, fmt.Sprintf(format, a...))
}

func (ex *Exec) evalBool(env *CEnv, x Expr, cl *Clause) *smt.Term {
	env.cl = cl
	v := env.eval(x)
	if v.Tm == nil || v.Tm.Sort != smt.Bool {
		env.fail("expression is not boolean: %s", cl.Text)
	}
	return v.Tm
}

func (ex *Exec) evalInt(env *CEnv, x Expr, cl *Clause) *smt.Term {
	env.cl = cl
	v := env.eval(x)
	if v.Tm == nil || v.Tm.Sort != smt.Int {
		env.fail("expression is not an integer: %s", cl.Text)
	}
	return v.Tm
}

var untypedInt = types.Typ[types.UntypedInt]
var tInt = types.Typ[types.Int]
var tBool = types.Typ[types.Bool]

func (e *CEnv) eval(x Expr) Val {
	c := e.ex.W.C
	switch n := x.(type) {
	case *EInt:
		b, _ := new(big.Int).SetString(n.V, 10)
		return Val{T: untypedInt, Tm: c.BigLit(b)}
	case *EReal:
		// a decimal literal denotes the float64 nearest to it, exactly as a typed Go constant does
		f, err := strconv.ParseFloat(n.V, 64)
		if err != nil {
			e.fail("bad decimal literal %s", n.V)
		}
		r := new(big.Rat)
		r.SetFloat64(f)
		return Val{T: types.Typ[types.Float64], Tm: c.RealLit(r)}
	case *EBool:
		return Val{T: tBool, Tm: c.BoolLit(n.V)}
	case *EStr:
		return Val{T: types.Typ[types.String], Tm: e.ex.W.StrLit(n.V)}
	case *ENil:
		return Val{T: types.Typ[types.UntypedNil], Tm: c.IntLit(0)}
	case *EIdent:
		return e.ident(n.Name)
	case *EOld:
		s := e.sub()
		s.st = e.old
		s.entryVals = true // parameters denote their entry values inside old()
		return s.eval(n.X)
	case *EUnary:
		v := e.eval(n.X)
		switch n.Op {
		case "!":
			return Val{T: tBool, Tm: c.Not(v.Tm)}
		case "-":
			return Val{T: v.T, Tm: c.Neg(v.Tm)}
		case "*":
			a := e.ex.toAddr(v)
			return e.ex.loaded(e.ex.typeAt(a), e.ex.load(e.st, a), e.st)
		}
		e.fail("unary %s unsupported", n.Op)
	case *EBinary:
		return e.binary(n)
	case *ECond:
		cnd := e.eval(n.C)
		// each branch is evaluated knowing its condition (lets a division pick its simple form)
		e.ex.localFacts = append(e.ex.localFacts, cnd.Tm)
		a := e.eval(n.A)
		e.ex.localFacts[len(e.ex.localFacts)-1] = c.Not(cnd.Tm)
		b := e.eval(n.B)
		e.ex.localFacts = e.ex.localFacts[:len(e.ex.localFacts)-1]
		a, b = e.unify(a, b)
		return Val{T: a.T, Tm: c.Ite(cnd.Tm, a.Tm, b.Tm)}
	case *ELet:
		s := e.sub()
		s.vars[n.Var] = e.eval(n.Val)
		s.boundNames[n.Var] = true
		return s.eval(n.Body)
	case *EQuant:
		s := e.sub()
		bv := c.Var("q!"+n.Var, smt.Int)
		s.vars[n.Var] = Val{T: tInt, Tm: bv}
		s.boundNames[n.Var] = true
		body := s.eval(n.Body)
		if body.Tm == nil || body.Tm.Sort != smt.Bool {
			e.fail("quantifier body is not boolean")
		}
		bt := body.Tm
		if n.Lo != nil {
			lo, hi := e.eval(n.Lo), e.eval(n.Hi)
			rng := c.And(c.Le(lo.Tm, bv), c.Lt(bv, hi.Tm))
			if n.Q == "forall" {
				bt = c.Implies(rng, bt)
			} else {
				bt = c.And(rng, bt)
			}
		}
		return Val{T: tBool, Tm: c.Quant(n.Q, []*smt.Term{bv}, bt)}
	case *ESel:
		return e.selector(n)
	case *EIndex:
		base := e.eval(n.X)
		idx := e.eval(n.I)
		return e.index(base, idx)
	case *ESlice:
		base := e.eval(n.X)
		sl, ok := base.T.Underlying().(*types.Slice)
		if !ok {
			e.fail("slice expression on non-slice")
		}
		_ = sl
		arr, off, ln, cp := e.ex.sliceParts(base.Tm)
		lo := c.IntLit(0)
		hi := ln
		if n.Lo != nil {
			lo = e.eval(n.Lo).Tm
		}
		if n.Hi != nil {
			hi = e.eval(n.Hi).Tm
		}
		return Val{T: base.T, Tm: e.ex.mkSlice(arr, c.Add(off, lo), c.Sub(hi, lo), c.Sub(cp, lo))}
	case *ECall:
		return e.call(n)
	}
	e.fail("unsupported expression %T", x)
	return Val{}
}

func (e *CEnv) unify(a, b Val) (Val, Val) {
	c := e.ex.W.C
	// integer literal against a bit-vector modelled value
	if a.Tm != nil && b.Tm != nil {
		if a.Tm.Sort.IsBV() && b.Tm.Sort == smt.Int {
			if n, ok := b.Tm.IntVal(); ok {
				w := a.Tm.Sort.BVWidth()
				b = Val{T: a.T, Tm: c.BVLit(new(big.Int).Mod(n, pow2(uint(w))).Uint64(), w)}
			} else {
				b = Val{T: a.T, Tm: c.App(fmt.Sprintf("(_ int2bv %d)", a.Tm.Sort.BVWidth()), a.Tm.Sort, b.Tm)}
			}
		} else if b.Tm.Sort.IsBV() && a.Tm.Sort == smt.Int {
			b2, a2 := e.unify(b, a)
			return a2, b2
		}
	}
	if a.Tm != nil && b.Tm != nil && a.Tm.Sort != b.Tm.Sort {
		if a.Tm.Sort == smt.Int && b.Tm.Sort == smt.Real {
			a = Val{T: b.T, Tm: c.ToReal(a.Tm)}
		} else if a.Tm.Sort == smt.Real && b.Tm.Sort == smt.Int {
			b = Val{T: a.T, Tm: c.ToReal(b.Tm)}
		} else if _, isNil := b.T.(*types.Basic); isNil && b.T == types.Typ[types.UntypedNil] {
			b = Val{T: a.T, Tm: e.ex.W.Zero(a.T)}
		} else if a.T == types.Typ[types.UntypedNil] {
			a = Val{T: b.T, Tm: e.ex.W.Zero(b.T)}
		}
	}
	if a.T == untypedInt && b.T != untypedInt {
		a.T = b.T
	}
	if b.T == untypedInt && a.T != untypedInt {
		b.T = a.T
	}
	return a, b
}

func (e *CEnv) binary(n *EBinary) Val {
	c := e.ex.W.C
	switch n.Op {
	case "&&":
		a := e.eval(n.X)
		b := e.eval(n.Y)
		return Val{T: tBool, Tm: c.And(a.Tm, b.Tm)}
	case "||":
		a := e.eval(n.X)
		b := e.eval(n.Y)
		return Val{T: tBool, Tm: c.Or(a.Tm, b.Tm)}
	case "==>":
		a := e.eval(n.X)
		b := e.eval(n.Y)
		return Val{T: tBool, Tm: c.Implies(a.Tm, b.Tm)}
	case "<==>":
		a := e.eval(n.X)
		b := e.eval(n.Y)
		return Val{T: tBool, Tm: c.Eq(a.Tm, b.Tm)}
	}
	a, b := e.eval(n.X), e.eval(n.Y)
	switch n.Op {
	case "==", "!=":
		var eq *smt.Term
		if a.Addr != nil || b.Addr != nil {
			eq = e.ex.equal(a, b, e.st)
		} else {
			a, b = e.unify(a, b)
			if _, isSlice := a.T.Underlying().(*types.Slice); isSlice && (isNilVal(b) || isNilVal(a)) {
				eq = e.ex.equal(a, b, e.st)
			} else {
				if a.Tm.Sort != b.Tm.Sort {
					e.fail("comparison of %s and %s", a.T, b.T)
				}
				eq = c.Eq(a.Tm, b.Tm)
				if r := e.ex.emptyStrEq(a.Tm, b.Tm); r != nil {
					eq = r
				}
				if bw, ok := e.ex.W.BridgeWidth(a.T); ok && a.Tm.Sort == smt.Int && bvShaped(a.Tm) && bvShaped(b.Tm) {
					if bw2, ok2 := e.ex.W.BridgeWidth(b.T); ok2 && bw2 == bw {
						// two values of a `bvtype` type (no arithmetic on either side): compared as bit-vectors
						eq = c.Eq(e.ex.bvOf(a.Tm, bw), e.ex.bvOf(b.Tm, bw))
					}
				}
			}
		}
		if n.Op == "!=" {
			eq = c.Not(eq)
		}
		return Val{T: tBool, Tm: eq}
	}
	a, b = e.unify(a, b)
	if a.Tm == nil || b.Tm == nil || a.Tm.Sort != b.Tm.Sort {
		e.fail("operator %s on %s and %s", n.Op, a.T, b.T)
	}
	if a.Tm.Sort.IsBV() {
		bs := a.Tm.Sort
		switch n.Op {
		case "&":
			return Val{T: a.T, Tm: c.App("bvand", bs, a.Tm, b.Tm)}
		case "|":
			return Val{T: a.T, Tm: c.App("bvor", bs, a.Tm, b.Tm)}
		case "^":
			return Val{T: a.T, Tm: c.App("bvxor", bs, a.Tm, b.Tm)}
		case "&^":
			return Val{T: a.T, Tm: c.App("bvand", bs, a.Tm, c.App("bvnot", bs, b.Tm))}
		case "<":
			return Val{T: tBool, Tm: c.App("bvult", smt.Bool, a.Tm, b.Tm)}
		case "<=":
			return Val{T: tBool, Tm: c.App("bvule", smt.Bool, a.Tm, b.Tm)}
		case ">":
			return Val{T: tBool, Tm: c.App("bvugt", smt.Bool, a.Tm, b.Tm)}
		case ">=":
			return Val{T: tBool, Tm: c.App("bvuge", smt.Bool, a.Tm, b.Tm)}
		}
		e.fail("operator %s on bit-vector modelled type %s", n.Op, a.T)
	}
	switch n.Op {
	case "<":
		return Val{T: tBool, Tm: c.Lt(a.Tm, b.Tm)}
	case "<=":
		return Val{T: tBool, Tm: c.Le(a.Tm, b.Tm)}
	case ">":
		return Val{T: tBool, Tm: c.Gt(a.Tm, b.Tm)}
	case ">=":
		return Val{T: tBool, Tm: c.Ge(a.Tm, b.Tm)}
	case "+":
		if a.Tm.Sort == e.ex.W.Str {
			r := c.App("str_cat", e.ex.W.Str, a.Tm, b.Tm)
			if !c.HasVar(r) {
				e.ex.assume(c.Eq(e.ex.strLen(r), c.Add(e.ex.strLen(a.Tm), e.ex.strLen(b.Tm))))
			}
			return Val{T: a.T, Tm: r}
		}
		return Val{T: a.T, Tm: c.Add(a.Tm, b.Tm)}
	case "-":
		return Val{T: a.T, Tm: c.Sub(a.Tm, b.Tm)}
	case "*":
		return Val{T: a.T, Tm: c.Mul(a.Tm, b.Tm)}
	case "/":
		if a.Tm.Sort == smt.Real {
			return Val{T: a.T, Tm: c.RDiv(a.Tm, b.Tm)}
		}
		return Val{T: a.T, Tm: e.ex.goDiv(a.Tm, b.Tm, false)}
	case "%":
		return Val{T: a.T, Tm: e.ex.goMod(a.Tm, b.Tm, false)}
	case "&", "|", "^", "&^", "<<", ">>":
		r, ok := e.ex.bitop(n.Op, a.Tm, b.Tm, a.T)
		if !ok {
			e.fail("bit operation %s needs a constant operand or a narrow type", n.Op)
		}
		return Val{T: a.T, Tm: r}
	}
	e.fail("operator %s unsupported", n.Op)
	return Val{}
}

func isNilVal(v Val) bool { return v.T == types.Typ[types.UntypedNil] }

func (e *CEnv) ident(name string) Val {
	c := e.ex.W.C
	if e.boundNames[name] {
		if v, ok := e.vars[name]; ok {
			return v
		}
	}
	if e.fr != nil && e.atBlock != nil && !e.entryVals {
		// inside a function body (loop invariant, exit assertion): the current value of a reassigned
		// parameter or local takes precedence over the parameter's entry value
		if v, ok := e.lookupLocal(name); ok {
			return v
		}
	}
	if v, ok := e.vars[name]; ok {
		return v
	}
	if e.fr != nil {
		if v, ok := e.lookupLocal(name); ok {
			return v
		}
	}
	if e.pkg != nil {
		if obj := e.pkg.Scope().Lookup(name); obj != nil {
			return e.object(obj)
		}
	}
	if obj := types.Universe.Lookup(name); obj != nil {
		if cst, ok := obj.(*types.Const); ok {
			return e.constObj(cst)
		}
	}
	_ = c
	e.fail("unknown identifier %q", name)
	return Val{}
}

func (e *CEnv) object(obj types.Object) Val {
	switch o := obj.(type) {
	case *types.Const:
		return e.constObj(o)
	case *types.Var:
		// package-level variable
		if g := e.ex.Prog.GlobalFor(o); g != nil {
			a := &Addr{Kind: aGlobal, Global: g, T: o.Type()}
			return e.ex.loaded(o.Type(), e.ex.load(e.st, a), e.st)
		}
	}
	e.fail("identifier %q is not a constant or variable", obj.Name())
	return Val{}
}

func (e *CEnv) constObj(o *types.Const) Val {
	c := e.ex.W.C
	t := o.Type()
	v := o.Val()
	switch v.Kind() {
	case constant.Bool:
		return Val{T: t, Tm: c.BoolLit(constant.BoolVal(v))}
	case constant.String:
		return Val{T: t, Tm: e.ex.W.StrLit(constant.StringVal(v))}
	case constant.Int:
		n, ok := constant.Val(v).(*big.Int)
		if !ok {
			i64, _ := constant.Int64Val(v)
			n = big.NewInt(i64)
		}
		if isFloat(t) {
			return Val{T: t, Tm: c.RealLit(new(big.Rat).SetInt(n))}
		}
		if bw, ok := e.ex.W.BVWidth(t); ok {
			return Val{T: t, Tm: c.BVLit(new(big.Int).Mod(n, pow2(uint(bw))).Uint64(), bw)}
		}
		return Val{T: t, Tm: c.BigLit(n)}
	case constant.Float:
		r := new(big.Rat)
		switch x := constant.Val(v).(type) {
		case *big.Rat:
			r = x
		case *big.Float:
			r, _ = x.Rat(nil)
		}
		return Val{T: t, Tm: c.RealLit(r)}
	}
	e.fail("constant %s of unsupported kind", o.Name())
	return Val{}
}

// lookupLocal resolves a source-level local variable name at the evaluation point
// (start of e.atBlock, or end of e.atBlock when e.atEnd is set; exit context when atBlock is nil).
func (e *CEnv) lookupLocal(name string) (Val, bool) {
	fr := e.fr
	get := func(v ssa.Value) Val {
		if e.over != nil {
			if ov, ok := e.over[v]; ok {
				return ov
			}
		}
		return e.ex.val(fr, v)
	}
	// overrides by comment (phis being bound explicitly, e.g. back-edge values)
	if e.atBlock != nil && !e.atEnd {
		for _, in := range e.atBlock.Instrs {
			phi, ok := in.(*ssa.Phi)
			if !ok {
				break
			}
			if phi.Comment == name {
				return get(phi), true
			}
		}
	}
	// captured variables of a function literal: the free variable holds the address of the variable
	for _, fv := range fr.fn.FreeVars {
		if fv.Name() == name {
			v := get(fv)
			if _, isPtr := fv.Type().Underlying().(*types.Pointer); isPtr {
				a := e.ex.toAddr(v)
				t := e.ex.typeAt(a)
				return e.ex.loaded(t, e.ex.load(e.st, a), e.st), true
			}
			return v, true
		}
	}
	var found ssa.Value
	var isAddr bool
	var atStart, atEnd func(b *ssa.BasicBlock, depth int) bool
	atStart = func(b *ssa.BasicBlock, depth int) bool {
		for _, in := range b.Instrs {
			phi, ok := in.(*ssa.Phi)
			if !ok {
				break
			}
			if phi.Comment == name {
				found, isAddr = phi, false
				return true
			}
		}
		if idom := b.Idom(); idom != nil && depth < 10000 {
			return atEnd(idom, depth+1)
		}
		return false
	}
	atEnd = func(b *ssa.BasicBlock, depth int) bool {
		for i := len(b.Instrs) - 1; i >= 0; i-- {
			dr, ok := b.Instrs[i].(*ssa.DebugRef)
			if !ok {
				continue
			}
			if obj := dr.Object(); obj != nil && obj.Name() == name {
				if vv, isVar := obj.(*types.Var); isVar && !vv.IsField() {
					found, isAddr = dr.X, dr.IsAddr
					return true
				}
			}
		}
		return atStart(b, depth)
	}
	ok := false
	switch {
	case e.atBlock != nil && e.atEnd:
		ok = atEnd(e.atBlock, 0)
	case e.atBlock != nil && e.atInstr != nil:
		idx := -1
		for i, in := range e.atBlock.Instrs {
			if in == e.atInstr {
				idx = i
			}
		}
		for i := idx - 1; i >= 0 && !ok; i-- {
			if dr, isDR := e.atBlock.Instrs[i].(*ssa.DebugRef); isDR {
				if obj := dr.Object(); obj != nil && obj.Name() == name {
					if vv, isVar := obj.(*types.Var); isVar && !vv.IsField() {
						found, isAddr = dr.X, dr.IsAddr
						ok = true
					}
				}
			}
		}
		if !ok {
			ok = atStart(e.atBlock, 0)
		}
	case e.atBlock != nil:
		ok = atStart(e.atBlock, 0)
	default:
		// exit context without a specific block: only unambiguous for variables with a single definition
		var only ssa.Value
		n := 0
		for _, b := range fr.fn.Blocks {
			for _, in := range b.Instrs {
				if dr, isDR := in.(*ssa.DebugRef); isDR {
					if obj := dr.Object(); obj != nil && obj.Name() == name {
						if vv, isVar := obj.(*types.Var); !isVar || vv.IsField() {
							continue
						}
						if only != dr.X {
							only = dr.X
							isAddr = dr.IsAddr
							n++
						}
					}
				}
			}
		}
		if n == 1 {
			found, ok = only, true
		}
	}
	if !ok || found == nil {
		return Val{}, false
	}
	v := get(found)
	e.lastLocalAddr = nil
	if isAddr {
		a := e.ex.toAddr(v)
		t := e.ex.typeAt(a)
		e.lastLocalAddr = a
		return e.ex.loaded(t, e.ex.load(e.st, a), e.st), true
	}
	return v, true
}

func (e *CEnv) selector(n *ESel) Val {
	c := e.ex.W.C
	// qualified identifier pkg.Name
	if id, ok := n.X.(*EIdent); ok {
		if _, bound := e.vars[id.Name]; !bound && e.pkg != nil {
			if _, isLocal := e.tryLocal(id.Name); !isLocal {
				for _, imp := range e.pkg.Imports() {
					if imp.Name() == id.Name {
						if obj := imp.Scope().Lookup(n.Name); obj != nil {
							return e.object(obj)
						}
					}
				}
			}
		}
	}
	base := e.eval(n.X)
	t := base.T
	if pt, ok := t.Underlying().(*types.Pointer); ok {
		a := e.ex.toAddr(base)
		stt, ok := e.ex.typeAt(a).Underlying().(*types.Struct)
		if !ok {
			e.fail("selector .%s on pointer to non-struct %s", n.Name, pt)
		}
		path, ft := findField(stt, n.Name)
		if path == nil {
			e.fail("no field %s in %s", n.Name, pt.Elem())
		}
		if a.Kind == aPtr {
			e.fail("field of opaque struct %s", pt.Elem())
		}
		for _, f := range path {
			a = a.extend(Step{Field: f})
		}
		return e.heapFacts(e.ex.loadedQuiet(ft, e.ex.load(e.st, a)))
	}
	stt, ok := t.Underlying().(*types.Struct)
	if !ok {
		e.fail("selector .%s on %s", n.Name, t)
	}
	path, ft := findField(stt, n.Name)
	if path == nil {
		e.fail("no field %s in %s", n.Name, t)
	}
	v := base.Tm
	cur := t
	for _, f := range path {
		dt := e.ex.W.DT(e.ex.W.SortOf(cur))
		if dt == nil {
			e.fail("field of opaque struct %s", cur)
		}
		v = c.Field(dt, f, v)
		cur = cur.Underlying().(*types.Struct).Field(f).Type()
	}
	return Val{T: ft, Tm: v}
}

func (e *CEnv) tryLocal(name string) (Val, bool) {
	if e.fr == nil {
		return Val{}, false
	}
	return e.lookupLocal(name)
}

// heapFacts records the well-formedness facts of a value read from the heap inside a specification:
// machine-integer ranges and "every stored reference lies below the allocation frontier of that state".
// These hold in every reachable Go heap, so assuming them is sound; terms under a binder are skipped.
func (e *CEnv) heapFacts(v Val) Val {
	if v.Tm == nil || v.Tm.IsOpen() || v.Tm.Kind == smt.KLit {
		return v
	}
	e.ex.assume(e.ex.W.WF(v.T, v.Tm, 0))
	e.ex.boundPtr(v, e.st)
	return v
}

// loadedQuiet wraps a loaded value without adding assumptions (contract evaluation must not assume).
func (ex *Exec) loadedQuiet(t types.Type, tm *smt.Term) Val { return Val{T: t, Tm: tm} }

// findField resolves a (possibly promoted) field name to an index path.
func findField(st *types.Struct, name string) ([]int, types.Type) {
	for i := 0; i < st.NumFields(); i++ {
		if st.Field(i).Name() == name {
			return []int{i}, st.Field(i).Type()
		}
	}
	for i := 0; i < st.NumFields(); i++ {
		f := st.Field(i)
		if f.Embedded() {
			if inner, ok := f.Type().Underlying().(*types.Struct); ok {
				if p, t := findField(inner, name); p != nil {
					return append([]int{i}, p...), t
				}
			}
		}
	}
	return nil, nil
}

func (e *CEnv) index(base, idx Val) Val {
	c := e.ex.W.C
	if idx.Tm != nil && !idx.Tm.IsOpen() {
		e.ex.noteIdx(idx.Tm)
	}
	switch bt := base.T.Underlying().(type) {
	case *types.Slice:
		arr, off, _, _ := e.ex.sliceParts(base.Tm)
		h := e.ex.heapGet(e.st, e.ex.keyElem(bt.Elem()))
		return e.heapFacts(Val{T: bt.Elem(), Tm: c.Select(c.Select(h, arr), c.Add(off, idx.Tm))})
	case *types.Array:
		return Val{T: bt.Elem(), Tm: c.Select(base.Tm, idx.Tm)}
	case *types.Basic:
		if isString(base.T) {
			return Val{T: types.Typ[types.Uint8], Tm: c.App("str_at", smt.Int, base.Tm, idx.Tm)}
		}
	case *types.Pointer:
		if at, ok := bt.Elem().Underlying().(*types.Array); ok {
			a := e.ex.toAddr(base).extend(Step{Idx: idx.Tm})
			return Val{T: at.Elem(), Tm: e.ex.load(e.st, a)}
		}
	}
	e.fail("index of %s", base.T)
	return Val{}
}

// evalAddr evaluates an lvalue expression to an address (for modifies clauses).
func (e *CEnv) evalAddr(x Expr) *Addr {
	switch n := x.(type) {
	case *ESel:
		base := e.eval(n.X)
		if _, ok := base.T.Underlying().(*types.Pointer); ok {
			a := e.ex.toAddr(base)
			stt := e.ex.typeAt(a).Underlying().(*types.Struct)
			path, _ := findField(stt, n.Name)
			if path == nil {
				e.fail("no field %s", n.Name)
			}
			for _, f := range path {
				a = a.extend(Step{Field: f})
			}
			return a
		}
		inner := e.evalAddr(n.X)
		if inner == nil {
			return nil
		}
		stt, ok := e.ex.typeAt(inner).Underlying().(*types.Struct)
		if !ok {
			return nil
		}
		path, _ := findField(stt, n.Name)
		if path == nil {
			e.fail("no field %s", n.Name)
		}
		for _, f := range path {
			inner = inner.extend(Step{Field: f})
		}
		return inner
	case *EIndex:
		base := e.eval(n.X)
		idx := e.eval(n.I)
		if sl, ok := base.T.Underlying().(*types.Slice); ok {
			arr, off, _, _ := e.ex.sliceParts(base.Tm)
			return &Addr{Kind: aElem, Root: arr, T: sl.Elem(), Path: []Step{{Idx: e.ex.W.C.Add(off, idx.Tm)}}}
		}
		return nil
	case *EUnary:
		if n.Op == "*" {
			return e.ex.toAddr(e.eval(n.X))
		}
	case *EIdent:
		if e.pkg != nil {
			if obj, ok := e.pkg.Scope().Lookup(n.Name).(*types.Var); ok {
				if g := e.ex.Prog.GlobalFor(obj); g != nil {
					return &Addr{Kind: aGlobal, Global: g, T: obj.Type()}
				}
			}
		}
	}
	return nil
}

func (e *CEnv) call(n *ECall) Val {
	c := e.ex.W.C
	if id, ok := n.Fun.(*EIdent); ok {
		// predicates / spec functions
		if e.pc != nil {
			if pd, ok := e.pc.Preds[id.Name]; ok {
				return e.applyPred(pd, n.Args)
			}
		}
		if pd := e.ex.Prog.FindPred(id.Name); pd != nil {
			return e.applyPred(pd, n.Args)
		}
		switch id.Name {
		case "len", "cap":
			v := e.eval(n.Args[0])
			switch t := v.T.Underlying().(type) {
			case *types.Slice:
				_, _, ln, cp := e.ex.sliceParts(v.Tm)
				if id.Name == "len" {
					return Val{T: tInt, Tm: ln}
				}
				return Val{T: tInt, Tm: cp}
			case *types.Array:
				return Val{T: tInt, Tm: c.IntLit(t.Len())}
			case *types.Basic:
				ln := e.ex.strLen(v.Tm)
				if !c.HasVar(ln) {
					e.ex.assume(c.Le(c.IntLit(0), ln)) // every string has a non-negative length
				}
				return Val{T: tInt, Tm: ln}
			}
			e.fail("len of %s", v.T)
		case "min", "max":
			acc := e.eval(n.Args[0])
			for _, a := range n.Args[1:] {
				v := e.eval(a)
				acc, v = e.unify(acc, v)
				if id.Name == "min" {
					acc = Val{T: acc.T, Tm: c.Ite(c.Le(acc.Tm, v.Tm), acc.Tm, v.Tm)}
				} else {
					acc = Val{T: acc.T, Tm: c.Ite(c.Ge(acc.Tm, v.Tm), acc.Tm, v.Tm)}
				}
			}
			return acc
		case "abs":
			v := e.eval(n.Args[0])
			zero := c.IntLit(0)
			if v.Tm.Sort == smt.Real {
				zero = c.RealLit(ratZero)
			}
			return Val{T: v.T, Tm: c.Ite(c.Ge(v.Tm, zero), v.Tm, c.Neg(v.Tm))}
		case "real", "float64":
			v := e.eval(n.Args[0])
			if v.Tm.Sort == smt.Real {
				return v
			}
			return Val{T: types.Typ[types.Float64], Tm: c.ToReal(v.Tm)}
		case "floor":
			v := e.eval(n.Args[0])
			return Val{T: tInt, Tm: c.ToIntFloor(v.Tm)}
		case "loglen": // loglen("name"): number of entries of a ghost log
			name := n.Args[0].(*EStr).V
			return Val{T: tInt, Tm: e.ex.logLen(e.st, name)}
		case "logat": // logat("name", i): i-th entry (an interface value)
			name := n.Args[0].(*EStr).V
			arr, _ := e.ex.logKeys(name)
			i := e.eval(n.Args[1])
			return Val{T: types.NewInterfaceType(nil, nil), Tm: c.Select(e.ex.heapGet(e.st, arr), i.Tm)}
		case "fn": // fn("name"): the func value of a package-level function
			name := n.Args[0].(*EStr).V
			f := e.ex.Prog.FuncByName(e.pkg, name)
			if f == nil {
				e.fail("unknown function %q", name)
			}
			return Val{T: f.Type(), Tm: c.IntLit(int64(e.ex.Prog.FuncID(f)))}
		case "isbound": // isbound(fv, "Method", recv): fv is the method value recv.Method
			fv := e.eval(n.Args[0])
			name := n.Args[1].(*EStr).V
			recv := e.eval(n.Args[2])
			e.ex.W.C.DeclareFun("closure_fn", []smt.Sort{smt.Int}, smt.Int)
			e.ex.W.C.DeclareFun("closure_bind0", []smt.Sort{smt.Int}, smt.Int)
			for _, f := range e.ex.Prog.AddressTaken() {
				if len(f.FreeVars) == 1 && f.Synthetic != "" {
					if obj, ok := f.Object().(*types.Func); ok && obj.Name() == name && types.Identical(f.FreeVars[0].Type(), recv.T) {
						return Val{T: tBool, Tm: c.And(
							c.Eq(c.App("closure_fn", smt.Int, fv.Tm), c.IntLit(int64(e.ex.Prog.FuncID(e.ex.Prog.BoundTarget(f))))),
							c.Eq(c.App("closure_bind0", smt.Int, fv.Tm), e.ex.ptrTerm(recv)),
							c.Lt(c.IntLit(100000000), fv.Tm))}
					}
				}
			}
			e.fail("no method value %s on %s is ever created", name, recv.T)
		case "maphas", "mapval": // maphas(globalMap, key) / mapval(globalMap, key): lookup in an init-only package-level map
			id, ok := n.Args[0].(*EIdent)
			if !ok || e.pkg == nil {
				e.fail("%s: first argument must name a package-level map", "maphas/mapval")
			}
			vobj, ok := e.pkg.Scope().Lookup(id.Name).(*types.Var)
			if !ok {
				e.fail("unknown package-level variable %s", id.Name)
			}
			g := e.ex.Prog.GlobalFor(vobj)
			mt, isMap := vobj.Type().Underlying().(*types.Map)
			if g == nil || !isMap || !e.ex.Prog.GlobalMapConst(g) {
				e.fail("%s is not a map filled only by the package initialiser", id.Name)
			}
			key := e.eval(n.Args[1])
			r := e.ex.mapLookupTerm(g, mt, key.Tm, true, nil)
			if id2 := n.Fun.(*EIdent); id2.Name == "maphas" {
				return r.Tup[1]
			}
			return r.Tup[0]
		case "mk": // mk("Type", f1, f2, ...): a struct value with the given field values in declaration order
			t := e.ex.Prog.LookupType(e.pkg, n.Args[0].(*EStr).V)
			if t == nil {
				e.fail("unknown type %s", n.Args[0].(*EStr).V)
			}
			dt := e.ex.W.DT(e.ex.W.SortOf(t))
			if dt == nil || len(dt.Fields) != len(n.Args)-1 {
				e.fail("mk: wrong number of fields for %s", t)
			}
			var fs []*smt.Term
			for i, a := range n.Args[1:] {
				ft := e.eval(a).Tm
				if dt.Sorts[i].IsBV() && ft.Sort == smt.Int {
					if nv, ok := ft.IntVal(); ok {
						ft = c.BVLit(new(big.Int).Mod(nv, pow2(uint(dt.Sorts[i].BVWidth()))).Uint64(), dt.Sorts[i].BVWidth())
					} else {
						ft = c.App(fmt.Sprintf("(_ int2bv %d)", dt.Sorts[i].BVWidth()), dt.Sorts[i], ft)
					}
				}
				fs = append(fs, ft)
			}
			return Val{T: t, Tm: c.Construct(dt, fs...)}
		case "mode": // mode(n): the state of terminal mode n after the tokens emitted so far (0 reset, 1 set; a depth for stack modes)
			v := e.eval(n.Args[0])
			return Val{T: tInt, Tm: c.Select(e.ex.heapGet(e.st, e.ex.modesKey()), v.Tm)}
		case "seqkind", "seqlead", "seqfinal", "seqn", "seqparam":
			// structure of a string that is one escape sequence: kind (1 CSI, 2 SS3, 3 ESC x, 0 other), private marker,
			// final byte, number of parameters, i-th parameter -- known for literals and for Sprintf on constant templates
			e.ex.W.seqUsed = true
			v := e.eval(n.Args[0])
			w := e.ex.W
			w.seqFacts(v.Tm, seqShape{}, nil) // declares the functions
			name := map[string]string{"seqkind": "sq_kind", "seqlead": "sq_lead", "seqfinal": "sq_final", "seqn": "sq_n", "seqparam": "sq_p"}[id.Name]
			if id.Name == "seqparam" {
				i := e.eval(n.Args[1])
				return Val{T: tInt, Tm: c.App(name, smt.Int, v.Tm, i.Tm)}
			}
			return Val{T: tInt, Tm: c.App(name, smt.Int, v.Tm)}
		case "modeskept": // modeskept(n1, n2, ...): every terminal mode other than the listed ones is as it was on entry (quantifier-free)
			k := e.ex.modesKey()
			cur := e.ex.heapGet(e.st, k)
			was := cur
			if e.old != nil {
				was = e.ex.heapGet(e.old, k)
			}
			for _, a := range n.Args {
				v := e.eval(a)
				was = c.Store(was, v.Tm, c.Select(cur, v.Tm))
			}
			return Val{T: tBool, Tm: c.Eq(cur, was)}
		case "operand": // operand(i): operand i of the statement a cut is attached to (the slice in `switch len(s)`, ...):
			// lets a stepping stone talk about "the value this statement looks at" without naming a local variable
			if e.atInstr == nil {
				e.fail("operand() is only available in cut clauses")
			}
			iv, okc := n.Args[0].(*EInt)
			if !okc {
				e.fail("operand(i) needs a literal index")
			}
			k, _ := strconv.Atoi(iv.V)
			var ops []ssa.Value
			if call, isCall := e.atInstr.(*ssa.Call); isCall {
				ops = call.Call.Args
			} else {
				for _, op := range e.atInstr.Operands(nil) {
					if op != nil && *op != nil {
						ops = append(ops, *op)
					}
				}
			}
			if k < 0 || k >= len(ops) {
				e.fail("operand(%d): the statement has %d operands", k, len(ops))
			}
			return e.ex.val(e.fr, ops[k])
		case "trow": // trow(), tcol(): the terminal's cursor (1-based) after the bytes written so far
			return Val{T: tInt, Tm: e.ex.heapGet(e.st, e.ex.trowKey())}
		case "tcol":
			return Val{T: tInt, Tm: e.ex.heapGet(e.st, e.ex.tcolKey())}
		case "textw": // textw(s): the number of columns the terminal advances when it prints the text s
			v := e.eval(n.Args[0])
			c.DeclareFun("uf_textw", []smt.Sort{v.Tm.Sort}, smt.Int)
			return Val{T: tInt, Tm: c.App("uf_textw", smt.Int, v.Tm)}
		case "pen": // pen(): the rendition and hyperlink a terminal has after the tokens emitted so far
			k := e.ex.penKey()
			return Val{T: e.ex.styleType(), Tm: e.ex.heapGet(e.st, k)}
		case "head": // head(e): the value of e at the head of the current iteration (loop assertions only)
			if e.loop == nil || e.loop.headSt == nil {
				e.fail("head() is only available in loop assertions")
			}
			s := e.sub()
			s.st = e.loop.headSt
			s.atBlock = e.loop.header
			s.atEnd = false
			return s.eval(n.Args[0])
		case "bit": // bit(m, k): bit k of the integer m (two's complement), via the bit-vector bridge
			m := e.eval(n.Args[0])
			kv, ok := e.eval(n.Args[1]).Tm.IntVal()
			if !ok || !kv.IsInt64() || kv.Int64() < 0 || kv.Int64() > 62 {
				e.fail("bit(m, k): k must be a literal in 0..62")
			}
			if m.Tm.Sort.IsBV() {
				if int(kv.Int64()) >= m.Tm.Sort.BVWidth() {
					return Val{T: tBool, Tm: c.False()}
				}
				ext := c.App(fmt.Sprintf("(_ extract %d %d)", kv.Int64(), kv.Int64()), smt.BVSort(1), m.Tm)
				return Val{T: tBool, Tm: c.Eq(ext, c.BVLit(1, 1))}
			}
			w := 8
			if bw, ok := e.ex.bitsFor(m.T); ok {
				w = bw
			}
			if bw, ok := e.ex.W.BridgeWidth(m.T); ok {
				w = bw
			}
			if int(kv.Int64()) >= w {
				w = int(kv.Int64()) + 1
			}
			bs := smt.BVSort(w)
			x := c.App(fmt.Sprintf("(_ int2bv %d)", w), bs, m.Tm)
			if bw, ok := e.ex.W.BridgeWidth(m.T); ok && bw == w {
				x = e.ex.bvOf(m.Tm, w)
			}
			ex := c.App(fmt.Sprintf("(_ extract %d %d)", kv.Int64(), kv.Int64()), smt.BVSort(1), x)
			return Val{T: tBool, Tm: c.Eq(ex, c.BVLit(1, 1))}
		case "boxed": // boxed(x): the interface value holding x
			v := e.eval(n.Args[0])
			return Val{T: types.NewInterfaceType(nil, nil), Tm: e.ex.box(v, e.st)}
		case "oldat": // oldat(a, i): element i (evaluated now) of the slice a as it was on entry (header and contents of then)
			so := e.sub()
			so.st = e.old
			so.entryVals = true
			base := so.eval(n.Args[0])
			idx := e.eval(n.Args[1])
			return so.index(base, idx)
		case "backing": // reference of a slice's backing array
			v := e.eval(n.Args[0])
			arr, _, _, _ := e.ex.sliceParts(v.Tm)
			return Val{T: tInt, Tm: arr}
		case "offset":
			v := e.eval(n.Args[0])
			_, off, _, _ := e.ex.sliceParts(v.Tm)
			return Val{T: tInt, Tm: off}
		case "brk": // allocation frontier: every live reference is below it
			return Val{T: tInt, Tm: e.st.brk}
		case "ref": // integer reference of a pointer
			v := e.eval(n.Args[0])
			return Val{T: tInt, Tm: e.ex.ptrTerm(v)}
		case "isnil":
			v := e.eval(n.Args[0])
			return Val{T: tBool, Tm: e.ex.equal(v, Val{T: v.T, Tm: e.ex.W.Zero(v.T)}, e.st)}
		case "unbox": // unbox(ifaceExpr, "pkg.Type"): the dynamic value, meaningful when typeis holds
			v := e.eval(n.Args[0])
			name := n.Args[1].(*EStr).V
			t := e.ex.Prog.LookupType(e.pkg, name)
			if t == nil {
				e.fail("unknown type %s", name)
			}
			s := e.ex.W.SortOf(t)
			tk := smt.Mangle(typeKey(t))
			e.ex.W.C.DeclareFun("box_"+tk, []smt.Sort{s}, e.ex.W.Iface)
			e.ex.W.C.DeclareFun("unbox_"+tk, []smt.Sort{e.ex.W.Iface}, s)
			return Val{T: t, Tm: c.App("unbox_"+tk, s, v.Tm)}
		case "typeis": // typeis(ifaceExpr, "pkg.Type") -- dynamic type test by type name
			v := e.eval(n.Args[0])
			name := n.Args[1].(*EStr).V
			t := e.ex.Prog.LookupType(e.pkg, name)
			if t == nil {
				e.fail("unknown type %s", name)
			}
			return Val{T: tBool, Tm: c.Eq(c.App("iface_tag", smt.Int, v.Tm), c.IntLit(int64(e.ex.W.TypeID(t))))}
		}
		// conversion to a basic or named type
		if t := e.lookupTypeName(id.Name); t != nil && len(n.Args) == 1 {
			v := e.eval(n.Args[0])
			return e.convertSpec(v, t)
		}
		// module function usable as a pure spec function (inlined, obligations suppressed)
		if e.pkg != nil {
			if fn := e.ex.Prog.FuncByName(e.pkg, id.Name); fn != nil {
				var args []Val
				for _, a := range n.Args {
					args = append(args, e.eval(a))
				}
				return e.inlineSpec(fn, args)
			}
		}
		e.fail("unknown function %q", id.Name)
	}
	if sel, ok := n.Fun.(*ESel); ok {
		// qualified conversion or method call
		if pid, ok := sel.X.(*EIdent); ok && e.pkg != nil {
			if _, bound := e.vars[pid.Name]; !bound {
				for _, imp := range e.pkg.Imports() {
					if imp.Name() == pid.Name {
						if tn, ok := imp.Scope().Lookup(sel.Name).(*types.TypeName); ok && len(n.Args) == 1 {
							return e.convertSpec(e.eval(n.Args[0]), tn.Type())
						}
						if fobj, ok := imp.Scope().Lookup(sel.Name).(*types.Func); ok {
							if fn := e.ex.Prog.SSA.FuncValue(fobj); fn != nil {
								var args []Val
								for _, a := range n.Args {
									args = append(args, e.eval(a))
								}
								return e.inlineSpec(fn, args)
							}
						}
					}
				}
			}
		}
		recv := e.eval(sel.X)
		if fn := e.ex.Prog.MethodByName(recv.T, sel.Name); fn != nil {
			args := []Val{e.adjustRecv(recv, fn)}
			for _, a := range n.Args {
				args = append(args, e.eval(a))
			}
			return e.inlineSpec(fn, args)
		}
		e.fail("unknown method %s on %s", sel.Name, recv.T)
	}
	e.fail("unsupported call")
	return Val{}
}

func (e *CEnv) adjustRecv(recv Val, fn *ssa.Function) Val {
	want := fn.Params[0].Type()
	_, wantPtr := want.Underlying().(*types.Pointer)
	_, havePtr := recv.T.Underlying().(*types.Pointer)
	if wantPtr == havePtr {
		return recv
	}
	if havePtr && !wantPtr {
		a := e.ex.toAddr(recv)
		return Val{T: want, Tm: e.ex.load(e.st, a)}
	}
	e.fail("method needs addressable receiver")
	return Val{}
}

func (e *CEnv) inlineSpec(fn *ssa.Function, args []Val) Val {
	ex := e.ex
	if e.depth > 6 {
		e.fail("spec inlining too deep at %s", fn.Name())
	}
	ex.quiet++
	defer func() { ex.quiet-- }()
	pc := ex.Prog.ContractsFor(fn)
	sub := ex.newFrame(fn, "", nil, pc)
	st := e.st.clone()
	sub.entry = st.clone()
	ex.inlineStack = append(ex.inlineStack, fn)
	rets, out, _ := ex.runFrame(sub, args, st, ex.W.C.True())
	ex.inlineStack = ex.inlineStack[:len(ex.inlineStack)-1]
	if out == nil || len(rets) == 0 {
		e.fail("spec call to %s has no result", fn.Name())
	}
	if len(rets) == 1 {
		return rets[0]
	}
	return Val{T: fn.Signature.Results(), Tup: rets}
}

func (e *CEnv) applyPred(pd *PredDecl, args []Expr) Val {
	if len(args) != len(pd.Params) {
		e.fail("predicate %s expects %d arguments", pd.Name, len(pd.Params))
	}
	if pd.Kind == "rec" {
		return e.applyRec(pd, args)
	}
	if pd.Kind == "ghost" {
		s := e.sub()
		e.enterPredPkg(s, pd)
		resT := s.specType(pd.ResType)
		ref := e.ghostRef(args[0])
		k := e.ex.ghostKey(pd.Name, resT)
		return Val{T: resT, Tm: e.ex.W.C.Select(e.ex.heapGet(e.st, k), ref)}
	}
	if pd.Kind == "ufun" {
		s := e.sub()
		e.enterPredPkg(s, pd)
		resT := s.specType(pd.ResType)
		var ts []*smt.Term
		var sorts []smt.Sort
		for _, a := range args {
			v := e.eval(a)
			if v.Tm == nil {
				v.Tm = e.ex.ptrTerm(v)
			}
			ts = append(ts, v.Tm)
			sorts = append(sorts, v.Tm.Sort)
		}
		name := "uf_" + pd.Name
		if isUnsigned(resT) {
			if e.ex.unsignedUF == nil {
				e.ex.unsignedUF = map[string]bool{}
			}
			e.ex.unsignedUF[name] = true
		}
		e.ex.W.C.DeclareFun(name, sorts, e.ex.W.SortOf(resT))
		return Val{T: resT, Tm: e.ex.W.C.App(name, e.ex.W.SortOf(resT), ts...)}
	}
	s := e.sub()
	s.depth = e.depth + 1
	if s.depth > 20 {
		e.fail("predicate expansion too deep (recursive?) at %s", pd.Name)
	}
	vals := make([]Val, len(args))
	for i, a := range args {
		vals[i] = e.eval(a)
	}
	// predicates see only their parameters (plus globals), not the caller's bound names
	s.vars = map[string]Val{}
	for i, p := range pd.Params {
		s.vars[p] = vals[i]
	}
	s.fr = nil
	e.enterPredPkg(s, pd)
	return s.eval(pd.Body)
}

// ghostRef: the reference of the object a ghost field is read from; a variable of the object type itself (rather
// than a pointer to it) stands for its own address.
func (e *CEnv) ghostRef(x Expr) *smt.Term {
	if id, ok := x.(*EIdent); ok {
		if _, bound := e.vars[id.Name]; !bound && e.fr != nil {
			if _, isLocal := e.lookupLocal(id.Name); isLocal && e.lastLocalAddr != nil {
				a := e.lastLocalAddr
				if _, isPtr := e.ex.typeAt(a).Underlying().(*types.Pointer); !isPtr {
					return e.ex.ptrTerm(Val{T: types.NewPointer(e.ex.typeAt(a)), Addr: a})
				}
			}
		}
	}
	v := e.eval(x)
	if v.Tm != nil {
		return v.Tm
	}
	return e.ex.ptrTerm(v)
}

// tryAddr is evalAddr without failing on expressions that are not addressable.
func (e *CEnv) tryAddr(x Expr) (a *Addr) {
	defer func() {
		if r := recover(); r != nil {
			a = nil
		}
	}()
	return e.evalAddr(x)
}

// enterPredPkg makes a predicate body resolve names in the package that declares it.
func (e *CEnv) enterPredPkg(s *CEnv, pd *PredDecl) {
	if pd.PkgPath == "" || (s.pkg != nil && s.pkg.Path() == pd.PkgPath) {
		return
	}
	if tp := e.ex.Prog.TypesPkg(pd.PkgPath); tp != nil {
		s.pkg = tp
		s.pc = e.ex.Prog.contracts[pd.PkgPath]
	}
}

func (e *CEnv) lookupTypeName(name string) types.Type {
	if obj := types.Universe.Lookup(name); obj != nil {
		if tn, ok := obj.(*types.TypeName); ok {
			return tn.Type()
		}
	}
	if e.pkg != nil {
		if tn, ok := e.pkg.Scope().Lookup(name).(*types.TypeName); ok {
			return tn.Type()
		}
	}
	return nil
}

// convertSpec is a conversion inside a specification: mathematical (no wrap) between integer types.
func (e *CEnv) convertSpec(v Val, t types.Type) Val {
	c := e.ex.W.C
	if v.Tm.Sort.IsBV() {
		if _, ok := e.ex.W.BVWidth(t); ok {
			return Val{T: t, Tm: v.Tm}
		}
		if isInteger(t) {
			return Val{T: t, Tm: c.App("bv2nat", smt.Int, v.Tm)}
		}
	}
	if bw, ok := e.ex.W.BVWidth(t); ok && v.Tm.Sort == smt.Int {
		if nv, isLit := v.Tm.IntVal(); isLit {
			return Val{T: t, Tm: c.BVLit(new(big.Int).Mod(nv, pow2(uint(bw))).Uint64(), bw)}
		}
		return Val{T: t, Tm: c.App(fmt.Sprintf("(_ int2bv %d)", bw), smt.BVSort(bw), v.Tm)}
	}
	switch {
	case isInteger(t) && v.Tm.Sort == smt.Int:
		return Val{T: t, Tm: v.Tm}
	case isInteger(t) && v.Tm.Sort == smt.Real:
		tr := c.Ite(c.Ge(v.Tm, c.RealLit(ratZero)), c.ToIntFloor(v.Tm), c.Neg(c.ToIntFloor(c.Neg(v.Tm))))
		return Val{T: t, Tm: tr}
	case isFloat(t) && v.Tm.Sort == smt.Int:
		return Val{T: t, Tm: c.ToReal(v.Tm)}
	}
	if e.ex.W.SortOf(t) == v.Tm.Sort {
		return Val{T: t, Tm: v.Tm}
	}
	e.fail("conversion of %s to %s unsupported in specifications", v.T, t)
	return Val{}
}

// ---------------------------------------------------------------- recursive spec functions

type recDef struct {
	name  string
	axiom *smt.Term
	uses  []string
}

func (e *CEnv) specType(s string) types.Type {
	if strings.HasPrefix(s, "[]") {
		return types.NewSlice(e.specType(s[2:]))
	}
	ptr := false
	if len(s) > 0 && s[0] == '*' {
		ptr = true
		s = s[1:]
	}
	var t types.Type
	if s == "" {
		t = tInt
	} else if tt := e.lookupTypeName(s); tt != nil {
		t = tt
	} else if tt := e.ex.Prog.LookupType(e.pkg, s); tt != nil {
		t = tt
	} else {
		e.fail("unknown type %q in spec declaration", s)
	}
	if ptr {
		return types.NewPointer(t)
	}
	return t
}

func (e *CEnv) applyRec(pd *PredDecl, args []Expr) Val {
	ex := e.ex
	c := ex.W.C
	resT := e.specType(pd.ResType)
	resSort := ex.W.SortOf(resT)
	vals := make([]Val, len(args))
	var argSorts []smt.Sort
	for i, a := range args {
		vals[i] = e.eval(a)
		if vals[i].Tm == nil {
			vals[i] = Val{T: vals[i].T, Tm: ex.ptrTerm(vals[i])}
		}
		argSorts = append(argSorts, vals[i].Tm.Sort)
	}
	argTerms := func() []*smt.Term {
		out := make([]*smt.Term, len(vals))
		for i, v := range vals {
			out[i] = v.Tm
		}
		return out
	}
	// inside the definition of this function for the same state: placeholder application
	for _, open := range ex.recOpen {
		if open.pd == pd && open.st == e.st {
			return Val{T: resT, Tm: c.App(open.placeholder, resSort, argTerms()...)}
		}
	}
	// evaluate the body once over bound variables, recording the heap components it reads
	memoKey := fmt.Sprintf("%s@%p", pd.Name, e.st)
	name, ok := ex.recMemo[memoKey]
	if ok {
		// the state may have been mutated since: verify that the recorded reads are still current
		for k, t := range ex.recReads[name] {
			if cur, have := e.st.heap[k]; !have || cur != t {
				ok = false
				break
			}
		}
	}
	if !ok {
		ex.recCtr++
		placeholder := fmt.Sprintf("rec!tmp%d", ex.recCtr)
		s := e.sub()
		s.vars = map[string]Val{}
		s.fr = nil
		e.enterPredPkg(s, pd)
		var bound []*smt.Term
		for i, p := range pd.Params {
			pt := e.specType(pd.ParamTypes[i])
			bv := c.Var(fmt.Sprintf("r!%s", p), ex.W.SortOf(pt))
			if bv.Sort != argSorts[i] {
				e.fail("argument %d of %s has sort %s, expected %s", i, pd.Name, argSorts[i], bv.Sort)
			}
			bound = append(bound, bv)
			s.vars[p] = Val{T: pt, Tm: bv}
		}
		ex.recOpen = append(ex.recOpen, recOpenT{pd: pd, st: e.st, placeholder: placeholder})
		savedLog := ex.readLog
		ex.readLog = map[string]*smt.Term{}
		body := s.eval(pd.Body)
		reads := ex.readLog
		ex.readLog = savedLog
		if savedLog != nil {
			for k, v := range reads {
				savedLog[k] = v
			}
		}
		ex.recOpen = ex.recOpen[:len(ex.recOpen)-1]
		if body.Tm == nil || body.Tm.Sort != resSort {
			e.fail("body of %s has sort %v, declared %s", pd.Name, body.Tm, resSort)
		}
		var ks []string
		for k := range reads {
			ks = append(ks, k)
		}
		sort.Strings(ks)
		id := pd.Name
		for _, k := range ks {
			id += fmt.Sprintf("_%d", reads[k].ID)
		}
		name = "rf_" + smt.Mangle(id)
		if _, done := ex.recDefs[name]; !done {
			ex.W.C.DeclareFun(name, argSorts, resSort)
			bodyT := c.RenameApp(body.Tm, placeholder, name)
			app := c.App(name, resSort, bound...)
			ax := c.Quant("forall", bound, c.Eq(app, bodyT), []*smt.Term{app})
			ex.recDefs[name] = &recDef{name: name, axiom: ax}
			ex.recOrder = append(ex.recOrder, name)
		}
		ex.recMemo[memoKey] = name
		ex.recReads[name] = reads
	}
	return Val{T: resT, Tm: c.App(name, resSort, argTerms()...)}
}

// bvShaped: the integer term denotes a value of an unsigned machine type without any specification-level
// arithmetic on top (a stored value, a bit operation result, a literal, or a choice between such).
func bvShaped(t *smt.Term) bool {
	switch t.Kind {
	case smt.KLit:
		n, ok := t.IntVal()
		return ok && n.Sign() >= 0
	case smt.KConst, smt.KVar:
		return true
	case smt.KApp:
		switch t.Op {
		case "bv2nat", "select":
			return true
		case "ite":
			return bvShaped(t.Args[1]) && bvShaped(t.Args[2])
		case "+", "-", "*", "div", "mod", "to_int":
			return false
		}
		// datatype selectors and uninterpreted functions
		return len(t.Args) <= 1 || strings.HasPrefix(t.Op, "uf_")
	}
	return false
}

package main

import (
	"fmt"
	"go/types"
	"strings"

	"golang.org/x/tools/go/ssa"
)

// goTranslator renders a contract expression as Go source evaluated after the call
// (old(...) sub-expressions are hoisted into snapshots taken before the call).
type goTranslator struct {
	cz    *concretizer
	ex    *Exec
	fn    *ssa.Function
	pre   []string
	bound map[string]bool
	subst map[string]string
	why   string
	nsnap int
	inOld bool
	tenv  map[string]Val
}

func (g *goTranslator) failf(format string, a ...interface{}) (string, bool) {
	if g.why == "" {
		g.why = fmt.Sprintf(format, a...)
	}
	return "", false
}

func (g *goTranslator) hasBound(x Expr) bool {
	found := false
	var walk func(Expr)
	walk = func(e Expr) {
		switch n := e.(type) {
		case *EIdent:
			if g.bound[n.Name] {
				found = true
			}
		case *EUnary:
			walk(n.X)
		case *EBinary:
			walk(n.X)
			walk(n.Y)
		case *ESel:
			walk(n.X)
		case *EIndex:
			walk(n.X)
			walk(n.I)
		case *ESlice:
			walk(n.X)
			if n.Lo != nil {
				walk(n.Lo)
			}
			if n.Hi != nil {
				walk(n.Hi)
			}
		case *ECall:
			walk(n.Fun)
			for _, a := range n.Args {
				walk(a)
			}
		case *EOld:
			walk(n.X)
		case *EQuant:
			if n.Lo != nil {
				walk(n.Lo)
				walk(n.Hi)
			}
			walk(n.Body)
		case *ELet:
			walk(n.Val)
			walk(n.Body)
		case *ECond:
			walk(n.C)
			walk(n.A)
			walk(n.B)
		}
	}
	walk(x)
	return found
}

// isIntExpr guesses whether the expression is integer-valued (to normalise to Go int).
func (g *goTranslator) typeOf(x Expr) types.Type {
	v, ok := g.evalVal(x)
	if !ok {
		return nil
	}
	return v.T
}

func (g *goTranslator) evalVal(x Expr) (Val, bool) {
	env := g.ex.envFor(nil, g.ex.entrySt, g.ex.entrySt, nil)
	env.pkg = pkgOf(g.fn)
	env.pc = g.ex.PC
	for k, v := range g.ex.params {
		env.vars[k] = v
	}
	res := g.fn.Signature.Results()
	for i := 0; i < res.Len(); i++ {
		v := Val{T: res.At(i).Type(), Tm: g.ex.W.C.Fresh("tr_res", g.ex.W.SortOf(res.At(i).Type()))}
		env.vars[fmt.Sprintf("result%d", i)] = v
		if res.Len() == 1 {
			env.vars["result"] = v
		}
		if n := res.At(i).Name(); n != "" && n != "_" {
			if _, clash := env.vars[n]; !clash {
				env.vars[n] = v
			}
		}
	}
	for b := range g.bound {
		env.vars[b] = Val{T: tInt, Tm: g.ex.W.C.Fresh("tr_b", "Int")}
	}
	for k, v := range g.tenv {
		env.vars[k] = v
	}
	var v Val
	ok := false
	func() {
		defer func() { recover() }()
		v = env.eval(x)
		ok = true
	}()
	return v, ok
}

func (g *goTranslator) intWrap(code string, x Expr) string {
	t := g.typeOf(x)
	if t != nil && isInteger(t) && t != untypedInt {
		if b, ok := t.(*types.Basic); ok && b.Kind() == types.Int {
			return code
		}
		return "int(" + code + ")"
	}
	return code
}

func (g *goTranslator) tr(x Expr) (string, bool) {
	switch n := x.(type) {
	case *EInt:
		return n.V, true
	case *EReal:
		return n.V, true
	case *EBool:
		return fmt.Sprint(n.V), true
	case *EStr:
		return fmt.Sprintf("%q", n.V), true
	case *ENil:
		return "nil", true
	case *EIdent:
		if s, ok := g.subst[n.Name]; ok {
			return g.intWrap(s, x), true
		}
		if n.Name == "result" {
			return g.intWrap("r0", x), true
		}
		if strings.HasPrefix(n.Name, "result") && len(n.Name) == 7 {
			return g.intWrap("r"+n.Name[6:], x), true
		}
		res := g.fn.Signature.Results()
		for i := 0; i < res.Len(); i++ {
			if res.At(i).Name() == n.Name {
				if _, isParam := g.ex.params[n.Name]; !isParam {
					return g.intWrap(fmt.Sprintf("r%d", i), x), true
				}
			}
		}
		if g.bound[n.Name] {
			return n.Name, true
		}
		return g.intWrap(n.Name, x), true
	case *EOld:
		if !g.hasBound(n.X) {
			t := g.typeOf(n.X)
			inner, ok := g.trOldFree(n.X)
			if !ok {
				return "", false
			}
			g.nsnap++
			v := fmt.Sprintf("old%d", g.nsnap)
			if t != nil {
				if sl, isSlice := t.Underlying().(*types.Slice); isSlice {
					g.pre = append(g.pre, fmt.Sprintf("%s := append(%s(nil), %s...)", v, g.cz.typeStr(types.NewSlice(sl.Elem())), inner))
					return v, true
				}
			}
			g.pre = append(g.pre, fmt.Sprintf("%s := %s", v, inner))
			g.pre = append(g.pre, fmt.Sprintf("_ = %s", v))
			return v, true
		}
		// old(base[i]) with bound i: snapshot base
		if ix, ok := n.X.(*EIndex); ok && !g.hasBound(ix.X) {
			base, ok := g.tr(&EOld{ix.X})
			if !ok {
				return "", false
			}
			idx, ok := g.tr(ix.I)
			if !ok {
				return "", false
			}
			return g.intWrap(fmt.Sprintf("%s[%s]", base, idx), n.X), true
		}
		if ix, ok := n.X.(*EIndex); ok {
			if ix2, ok := ix.X.(*EIndex); ok && !g.hasBound(ix2.X) {
				// old(base[i][j]): two-level snapshot
				t := g.typeOf(ix2.X)
				if t == nil {
					return g.failf("old(): untyped base")
				}
				sl, ok := t.Underlying().(*types.Slice)
				if !ok {
					return g.failf("old(): base is not a slice")
				}
				inner, ok := g.trOldFree(ix2.X)
				if !ok {
					return "", false
				}
				g.nsnap++
				v := fmt.Sprintf("old%d", g.nsnap)
				g.pre = append(g.pre, fmt.Sprintf("%s := make(%s, len(%s))", v, g.cz.typeStr(t), inner))
				g.pre = append(g.pre, fmt.Sprintf("for i_ := range %s { %s[i_] = append(%s(nil), %s[i_]...) }", inner, v, g.cz.typeStr(sl.Elem()), inner))
				i1, ok1 := g.tr(ix2.I)
				i2, ok2 := g.tr(ix.I)
				if !ok1 || !ok2 {
					return "", false
				}
				return g.intWrap(fmt.Sprintf("%s[%s][%s]", v, i1, i2), n.X), true
			}
		}
		return g.failf("old() over a bound variable in an unsupported shape")
	case *EUnary:
		a, ok := g.tr(n.X)
		if !ok {
			return "", false
		}
		return "(" + n.Op + a + ")", true
	case *EBinary:
		a, ok1 := g.tr(n.X)
		b, ok2 := g.tr(n.Y)
		if !ok1 || !ok2 {
			return "", false
		}
		switch n.Op {
		case "==>":
			return fmt.Sprintf("(!(%s) || (%s))", a, b), true
		case "<==>":
			return fmt.Sprintf("((%s) == (%s))", a, b), true
		case "/", "%", "&", "|", "^", "&^", "<<", ">>", "+", "-", "*", "==", "!=", "<", "<=", ">", ">=", "&&", "||":
			return fmt.Sprintf("(%s %s %s)", a, n.Op, b), true
		}
		return g.failf("operator %s", n.Op)
	case *ECond:
		cnd, ok1 := g.tr(n.C)
		a, ok2 := g.tr(n.A)
		b, ok3 := g.tr(n.B)
		if !ok1 || !ok2 || !ok3 {
			return "", false
		}
		t := g.typeOf(n.A)
		ts := "int"
		if t != nil && !isInteger(t) {
			ts = g.cz.typeStr(t)
		}
		return fmt.Sprintf("func() %s { if %s { return %s }; return %s }()", ts, cnd, a, b), true
	case *ELet:
		v, ok := g.tr(n.Val)
		if !ok {
			return "", false
		}
		saved, had := g.subst[n.Var]
		if g.subst == nil {
			g.subst = map[string]string{}
		}
		g.subst[n.Var] = "(" + v + ")"
		body, ok := g.tr(n.Body)
		if had {
			g.subst[n.Var] = saved
		} else {
			delete(g.subst, n.Var)
		}
		return body, ok
	case *EQuant:
		if n.Lo == nil {
			return g.failf("unbounded quantifier")
		}
		lo, ok1 := g.tr(n.Lo)
		hi, ok2 := g.tr(n.Hi)
		g.bound[n.Var] = true
		body, ok3 := g.tr(n.Body)
		delete(g.bound, n.Var)
		if !ok1 || !ok2 || !ok3 {
			return "", false
		}
		if n.Q == "forall" {
			return fmt.Sprintf("func() bool { for %s := %s; %s < %s; %s++ { if !(%s) { return false } }; return true }()", n.Var, lo, n.Var, hi, n.Var, body), true
		}
		return fmt.Sprintf("func() bool { for %s := %s; %s < %s; %s++ { if %s { return true } }; return false }()", n.Var, lo, n.Var, hi, n.Var, body), true
	case *ESel:
		if id, ok := n.X.(*EIdent); ok {
			if _, isParam := g.ex.params[id.Name]; !isParam && !g.bound[id.Name] && g.subst[id.Name] == "" {
				// maybe a package qualifier
				for _, imp := range pkgOf(g.fn).Imports() {
					if imp.Name() == id.Name {
						g.cz.imports[imp.Path()] = imp.Name()
						return g.intWrap(id.Name+"."+n.Name, x), true
					}
				}
			}
		}
		b, ok := g.trRaw(n.X)
		if !ok {
			return "", false
		}
		return g.intWrap(b+"."+n.Name, x), true
	case *EIndex:
		b, ok1 := g.trRaw(n.X)
		i, ok2 := g.tr(n.I)
		if !ok1 || !ok2 {
			return "", false
		}
		return g.intWrap(fmt.Sprintf("%s[%s]", b, i), x), true
	case *ESlice:
		b, ok := g.trRaw(n.X)
		if !ok {
			return "", false
		}
		lo, hi := "", ""
		if n.Lo != nil {
			lo, _ = g.tr(n.Lo)
		}
		if n.Hi != nil {
			hi, _ = g.tr(n.Hi)
		}
		return fmt.Sprintf("%s[%s:%s]", b, lo, hi), true
	case *ECall:
		if id, ok := n.Fun.(*EIdent); ok {
			var pd *PredDecl
			if g.ex.PC != nil {
				pd = g.ex.PC.Preds[id.Name]
			}
			if pd == nil {
				pd = g.ex.Prog.FindPred(id.Name)
			}
			if pd != nil && pd.Kind == "ufun" {
				// a function declared as the value of a call outside the module (`extern attr`): make that call
				for _, pc := range g.ex.externContracts() {
					for key, ufs := range pc.ExternAttr {
						for ri, uf := range ufs {
							if uf != pd.Name {
								continue
							}
							var parts []string
							for _, a := range n.Args {
								s, ok := g.trRaw(a)
								if !ok {
									return "", false
								}
								parts = append(parts, s)
							}
							if len(parts) == 0 {
								return g.failf("extern attr without receiver")
							}
							call := fmt.Sprintf("%s.%s(%s)", parts[0], key[strings.LastIndex(key, ".")+1:], strings.Join(parts[1:], ", "))
							if len(ufs) == 1 {
								return g.intWrap(call, x), true
							}
							var lhs []string
							for i := range ufs {
								if i == ri {
									lhs = append(lhs, "v_")
								} else {
									lhs = append(lhs, "_")
								}
							}
							t := g.typeOf(x)
							if t == nil {
								return g.failf("untyped extern attr")
							}
							return g.intWrap(fmt.Sprintf("func() %s { %s := %s; return v_ }()", g.cz.typeStr(t), strings.Join(lhs, ", "), call), x), true
						}
					}
				}
				return g.failf("uninterpreted function %s has no Go counterpart", pd.Name)
			}
			if pd != nil {
				saved, savedT := g.subst, g.tenv
				ns := map[string]string{}
				nt := map[string]Val{}
				for i, prm := range pd.Params {
					a, ok := g.trRaw(n.Args[i])
					if !ok {
						return "", false
					}
					ns[prm] = "(" + a + ")"
					v, ok := g.evalVal(n.Args[i])
					if !ok {
						return g.failf("cannot type predicate argument")
					}
					nt[prm] = v
				}
				// predicate bodies see only their parameters
				g.subst, g.tenv = ns, nt
				savedBound := g.bound
				g.bound = map[string]bool{}
				body, ok := g.tr(pd.Body)
				g.subst, g.tenv = saved, savedT
				g.bound = savedBound
				return "(" + body + ")", ok
			}
			switch id.Name {
			case "len", "cap":
				a, ok := g.trRaw(n.Args[0])
				return fmt.Sprintf("%s(%s)", id.Name, a), ok
			case "min", "max":
				var parts []string
				for _, a := range n.Args {
					s, ok := g.tr(a)
					if !ok {
						return "", false
					}
					parts = append(parts, s)
				}
				cmp := "<"
				if id.Name == "max" {
					cmp = ">"
				}
				acc := parts[0]
				for _, p := range parts[1:] {
					acc = fmt.Sprintf("func() int { a_, b_ := %s, %s; if a_ %s b_ { return a_ }; return b_ }()", acc, p, cmp)
				}
				return acc, true
			case "abs":
				a, ok := g.tr(n.Args[0])
				return fmt.Sprintf("func() int { a_ := %s; if a_ < 0 { return -a_ }; return a_ }()", a), ok
			case "isnil":
				a, ok := g.trRaw(n.Args[0])
				return fmt.Sprintf("(%s == nil)", a), ok
			case "ref":
				a, ok := g.trRaw(n.Args[0])
				return fmt.Sprintf("func() int { if %s == nil { return 0 }; return 1 }()", a), ok
			case "backing", "offset", "brk", "typeis", "unbox":
				return g.failf("%s() has no Go counterpart", id.Name)
			case "int":
				a, ok := g.trRaw(n.Args[0])
				return fmt.Sprintf("int(%s)", a), ok
			}
			if t := g.typeOf(x); t != nil && len(n.Args) == 1 && isInteger(t) {
				// conversion to a named integer type: mathematical identity
				return g.tr(n.Args[0])
			}
			// plain function call
			var parts []string
			for _, a := range n.Args {
				s, ok := g.trRaw(a)
				if !ok {
					return "", false
				}
				parts = append(parts, s)
			}
			return g.intWrap(fmt.Sprintf("%s(%s)", id.Name, strings.Join(parts, ", ")), x), true
		}
		if sel, ok := n.Fun.(*ESel); ok {
			recv, ok := g.trRaw(sel.X)
			if !ok {
				return "", false
			}
			var parts []string
			for _, a := range n.Args {
				s, ok := g.trRaw(a)
				if !ok {
					return "", false
				}
				parts = append(parts, s)
			}
			return g.intWrap(fmt.Sprintf("%s.%s(%s)", recv, sel.Name, strings.Join(parts, ", ")), x), true
		}
	}
	return g.failf("unsupported expression %T", x)
}

// trRaw translates without integer normalisation (for receivers, indexed bases, call arguments).
func (g *goTranslator) trRaw(x Expr) (string, bool) {
	switch n := x.(type) {
	case *EIdent:
		if s, ok := g.subst[n.Name]; ok {
			return s, true
		}
		if n.Name == "result" {
			return "r0", true
		}
		if strings.HasPrefix(n.Name, "result") && len(n.Name) == 7 {
			return "r" + n.Name[6:], true
		}
		res := g.fn.Signature.Results()
		for i := 0; i < res.Len(); i++ {
			if res.At(i).Name() == n.Name {
				if _, isParam := g.ex.params[n.Name]; !isParam {
					return fmt.Sprintf("r%d", i), true
				}
			}
		}
		return n.Name, true
	case *ESel:
		b, ok := g.trRaw(n.X)
		return b + "." + n.Name, ok
	case *EIndex:
		b, ok1 := g.trRaw(n.X)
		i, ok2 := g.tr(n.I)
		return fmt.Sprintf("%s[%s]", b, i), ok1 && ok2
	case *EOld:
		return g.tr(x)
	}
	return g.tr(x)
}

// trOldFree translates an expression evaluated before the call (no result references).
func (g *goTranslator) trOldFree(x Expr) (string, bool) {
	return g.trRaw(x)
}

package main

import (
	"fmt"
	"os"

	"golang.org/x/tools/go/packages"
	"golang.org/x/tools/go/ssa"
	"golang.org/x/tools/go/ssa/ssautil"
)

func main() {
	cfg := &packages.Config{Mode: packages.LoadAllSyntax, Dir: "/repo", BuildFlags: []string{"-tags=verif"}}
	pkgs, err := packages.Load(cfg, os.Args[1])
	if err != nil {
		panic(err)
	}
	prog, spkgs := ssautil.AllPackages(pkgs, ssa.GlobalDebug)
	prog.Build()
	for _, p := range spkgs {
		for _, m := range p.Members {
			if f, ok := m.(*ssa.Function); ok && f.Name() == os.Args[2] {
				f.WriteTo(os.Stdout)
			}
		}
		for _, name := range os.Args[2:] {
			_ = name
		}
	}
	// methods
	for f := range ssautil.AllFunctions(prog) {
		if f.Pkg != nil && f.Pkg.Pkg.Path() == pkgs[0].PkgPath && f.Name() == os.Args[2] && f.Signature.Recv() != nil {
			f.WriteTo(os.Stdout)
		}
	}
	fmt.Println()
}

package main

import (
	"fmt"
	"go/types"
	"math/big"

	"govc/smt"
)

// wrap reduces a mathematical integer result to the range of Go type t.
// Unsigned types wrap exactly; signed types are left mathematical unless
// narrow (8/16/32 bit), where two's complement wrap is applied.
func (ex *Exec) wrap(v *smt.Term, t types.Type, force bool) *smt.Term {
	c := ex.W.C
	lo, hi, uns, ok := intRange(t)
	if !ok {
		return v
	}
	if n, isLit := v.IntVal(); isLit && n.Cmp(lo) >= 0 && n.Cmp(hi) < 0 {
		return v
	}
	if uns {
		return c.IMod(v, c.BigLit(hi))
	}
	if bitsOf(t) < 64 || force {
		span := new(big.Int).Sub(hi, lo)
		return c.Add(c.IMod(c.Sub(v, c.BigLit(lo)), c.BigLit(span)), c.BigLit(lo))
	}
	return v
}

// divFact states the defining equation of integer division for a divisor that is not a literal:
// x = y*(x div y) + (x mod y) and 0 <= x mod y < |y| (for y != 0). The solvers know this, but they make little
// use of it when y is a variable; as an explicit product it lets the nonlinear engine work.
func (ex *Exec) divFact(x, y *smt.Term) {
	c := ex.W.C
	if _, lit := y.IntVal(); lit || x.Sort != smt.Int || c.HasVar(x) || c.HasVar(y) {
		return
	}
	if ex.divFacts == nil {
		ex.divFacts = map[[2]int]bool{}
	}
	k := [2]int{x.ID, y.ID}
	if ex.divFacts[k] {
		return
	}
	ex.divFacts[k] = true
	zero := c.IntLit(0)
	q, r := c.IDiv(x, y), c.IMod(x, y)
	absy := c.Ite(c.Ge(y, zero), y, c.Neg(y))
	ex.assume(c.Implies(c.Not(c.Eq(y, zero)), c.And(c.Eq(x, c.Add(c.Mul(y, q), r)), c.Le(zero, r), c.Lt(r, absy))))
}

func (ex *Exec) goDiv(a, b *smt.Term, nonneg bool) *smt.Term {
	c := ex.W.C
	zero := c.IntLit(0)
	if bv, lit := b.IntVal(); lit && bv.Sign() > 0 && !nonneg && ex.knownNonneg(a) {
		return c.IDiv(a, b)
	}
	if _, lit := b.IntVal(); !lit && a.Sort == smt.Int && !nonneg && ex.knownPos(b) {
		// the divisor is positive on every path (an assumed fact): only the dividend's sign matters
		if ex.knownNonneg(a) {
			ex.divFact(a, b)
			return c.IDiv(a, b)
		}
		ex.divFact(a, b)
		ex.divFact(c.Neg(a), b)
		return c.Ite(c.Ge(a, zero), c.IDiv(a, b), c.Neg(c.IDiv(c.Neg(a), b)))
	}
	if _, lit := b.IntVal(); !lit && a.Sort == smt.Int {
		if nonneg {
			ex.divFact(a, b)
		} else {
			ex.divFact(a, b)
			ex.divFact(a, c.Neg(b))
			ex.divFact(c.Neg(a), b)
			ex.divFact(c.Neg(a), c.Neg(b))
		}
	}
	if nonneg {
		return c.IDiv(a, b)
	}
	if bv, ok := b.IntVal(); ok && bv.Sign() > 0 {
		return c.Ite(c.Ge(a, zero), c.IDiv(a, b), c.Neg(c.IDiv(c.Neg(a), b)))
	}
	return c.Ite(c.Ge(a, zero),
		c.Ite(c.Gt(b, zero), c.IDiv(a, b), c.Neg(c.IDiv(a, c.Neg(b)))),
		c.Ite(c.Gt(b, zero), c.Neg(c.IDiv(c.Neg(a), b)), c.IDiv(c.Neg(a), c.Neg(b))))
}

func (ex *Exec) goMod(a, b *smt.Term, nonneg bool) *smt.Term {
	c := ex.W.C
	zero := c.IntLit(0)
	if bv, lit := b.IntVal(); lit && bv.Sign() > 0 && !nonneg && ex.knownNonneg(a) {
		return c.IMod(a, b)
	}
	if _, lit := b.IntVal(); !lit && a.Sort == smt.Int && !nonneg && ex.knownPos(b) {
		if ex.knownNonneg(a) {
			ex.divFact(a, b)
			return c.IMod(a, b)
		}
		ex.divFact(a, b)
		ex.divFact(c.Neg(a), b)
		return c.Ite(c.Ge(a, zero), c.IMod(a, b), c.Neg(c.IMod(c.Neg(a), b)))
	}
	if _, lit := b.IntVal(); !lit && a.Sort == smt.Int {
		absb := c.Ite(c.Gt(b, zero), b, c.Neg(b))
		ex.divFact(a, absb)
		if !nonneg {
			ex.divFact(c.Neg(a), absb)
		}
	}
	if nonneg {
		return c.IMod(a, b)
	}
	if bv, ok := b.IntVal(); ok && bv.Sign() > 0 {
		return c.Ite(c.Ge(a, zero), c.IMod(a, b), c.Neg(c.IMod(c.Neg(a), b)))
	}
	absb := c.Ite(c.Gt(b, zero), b, c.Neg(b))
	return c.Ite(c.Ge(a, zero), c.IMod(a, absb), c.Neg(c.IMod(c.Neg(a), absb)))
}

// andConst computes a & m for a non-negative constant mask m, exactly, on
// mathematical integers in two's complement reading.
func (ex *Exec) andConst(a *smt.Term, m *big.Int) *smt.Term {
	c := ex.W.C
	if av, ok := a.IntVal(); ok {
		return c.BigLit(new(big.Int).And(av, m))
	}
	res := c.IntLit(0)
	n := m.BitLen()
	i := 0
	for i < n {
		if m.Bit(i) == 0 {
			i++
			continue
		}
		j := i
		for j < n && m.Bit(j) == 1 {
			j++
		}
		// run [i,j)
		part := c.IMod(c.IDiv(a, c.BigLit(pow2(uint(i)))), c.BigLit(pow2(uint(j-i))))
		res = c.Add(res, c.Mul(part, c.BigLit(pow2(uint(i)))))
		i = j
	}
	return res
}

func (ex *Exec) bit(a *smt.Term, i uint) *smt.Term {
	c := ex.W.C
	return c.Eq(c.IMod(c.IDiv(a, c.BigLit(pow2(i))), c.IntLit(2)), c.IntLit(1))
}

// bitop computes a op b for integer-sorted terms of Go type t.
// ok=false means the operation had to be abstracted (result unconstrained).
func (ex *Exec) bitop(op string, a, b *smt.Term, t types.Type) (*smt.Term, bool) {
	c := ex.W.C
	av, aConst := a.IntVal()
	bvv, bConst := b.IntVal()
	_, hi, uns, _ := intRange(t)
	nonnegConst := func(x *big.Int) bool { return x.Sign() >= 0 }
	if bw, ok := ex.W.BridgeWidth(t); ok && (op == "&" || op == "|" || op == "^" || op == "&^") {
		// `bvtype`: an unsigned type of exactly this width, so the bridge is exact for every value
		bs := smt.BVSort(bw)
		x, y := ex.bvOf(a, bw), ex.bvOf(b, bw)
		var r *smt.Term
		switch op {
		case "&":
			r = c.App("bvand", bs, x, y)
		case "|":
			r = c.App("bvor", bs, x, y)
		case "^":
			r = c.App("bvxor", bs, x, y)
		case "&^":
			r = c.App("bvand", bs, x, c.App("bvnot", bs, y))
		}
		return c.App("bv2nat", smt.Int, r), true
	}
	// normalise negative constants of signed types for masks like ^0x10 : handle via complement
	switch op {
	case "&":
		if bConst && nonnegConst(bvv) {
			return ex.andConst(a, bvv), true
		}
		if aConst && nonnegConst(av) {
			return ex.andConst(b, av), true
		}
		if bConst && !uns { // a & (-k-1)  ==  a &^ k
			k := new(big.Int).Not(bvv)
			return c.Sub(a, ex.andConst(a, k)), true
		}
	case "|":
		if bConst && nonnegConst(bvv) {
			return c.Sub(c.Add(a, b), ex.andConst(a, bvv)), true
		}
		if aConst && nonnegConst(av) {
			return c.Sub(c.Add(a, b), ex.andConst(b, av)), true
		}
	case "^":
		if bConst && nonnegConst(bvv) {
			return c.Sub(c.Add(a, b), c.Mul(c.IntLit(2), ex.andConst(a, bvv))), true
		}
		if aConst && nonnegConst(av) {
			return c.Sub(c.Add(a, b), c.Mul(c.IntLit(2), ex.andConst(b, av))), true
		}
	case "&^":
		if bConst && nonnegConst(bvv) {
			return c.Sub(a, ex.andConst(a, bvv)), true
		}
		if aConst && nonnegConst(av) {
			return c.Sub(a, ex.andConst(b, av)), true
		}
	case "<<":
		if bConst && bvv.IsInt64() && bvv.Int64() >= 0 && bvv.Int64() < 256 {
			return c.Mul(a, c.BigLit(pow2(uint(bvv.Int64())))), true
		}
	case ">>":
		if bConst && bvv.IsInt64() && bvv.Int64() >= 0 && bvv.Int64() < 256 {
			return c.IDiv(a, c.BigLit(pow2(uint(bvv.Int64())))), true
		}
	}
	// symbolic-symbolic: expand bit by bit for declared/narrow widths
	width := uint(0)
	if w, ok := ex.bitsDecl["!force"]; ok {
		width = uint(w)
	} else if w, ok := ex.bitsFor(t); ok {
		width = uint(w)
	} else if uns && bitsOf(t) <= 16 {
		width = bitsOf(t)
	}
	if _, declared := ex.bitsFor(t); declared && width > 0 && (op == "&" || op == "|" || op == "^" || op == "&^") {
		if _, forced := ex.bitsDecl["!force"]; !forced {
			// declared bit width: compute in bit-vectors, bridge with int2bv/bv2nat (exact when both operands fit)
			bs := smt.BVSort(int(width))
			i2b := fmt.Sprintf("(_ int2bv %d)", width)
			x, y := c.App(i2b, bs, a), c.App(i2b, bs, b)
			var r *smt.Term
			switch op {
			case "&":
				r = c.App("bvand", bs, x, y)
			case "|":
				r = c.App("bvor", bs, x, y)
			case "^":
				r = c.App("bvxor", bs, x, y)
			case "&^":
				r = c.App("bvand", bs, x, c.App("bvnot", bs, y))
			}
			res := c.App("bv2nat", smt.Int, r)
			lim := c.BigLit(pow2(width))
			in := c.And(c.Le(c.IntLit(0), a), c.Lt(a, lim), c.Le(c.IntLit(0), b), c.Lt(b, lim))
			other := c.Fresh("bitop", smt.Int)
			return c.Ite(in, res, other), true
		}
	}
	if width > 0 && (op == "&" || op == "|" || op == "^" || op == "&^") {
		_, declared := ex.bitsFor(t)
		_, forced := ex.bitsDecl["!force"]
		guardRange := declared && !forced && !(uns && bitsOf(t) <= 16)
		res := c.IntLit(0)
		for i := uint(0); i < width; i++ {
			x, y := ex.bit(a, i), ex.bit(b, i)
			var r *smt.Term
			switch op {
			case "&":
				r = c.And(x, y)
			case "|":
				r = c.Or(x, y)
			case "^":
				r = c.Not(c.Eq(x, y))
			case "&^":
				r = c.And(x, c.Not(y))
			}
			res = c.Add(res, c.Ite(r, c.BigLit(pow2(i)), c.IntLit(0)))
		}
		if guardRange {
			// declared width on a wider type: exact only when both operands fit; otherwise unconstrained
			lim := c.BigLit(pow2(width))
			in := c.And(c.Le(c.IntLit(0), a), c.Lt(a, lim), c.Le(c.IntLit(0), b), c.Lt(b, lim))
			other := c.Fresh("bitop", smt.Int)
			return c.Ite(in, res, other), true
		}
		return res, true
	}
	_ = hi
	r := c.Fresh("bitop", smt.Int)
	if wf := ex.W.WF(t, r, 0); wf != nil {
		ex.assume(wf)
	}
	return r, false
}

// bvOf gives the bit-vector of an integer term that denotes a value of a `bvtype` type of width w. Results of bit
// operations and literals convert structurally; any other term (a stored value, a parameter) gets a bit-vector
// constant b with the defining assumption t == bv2nat(b), which holds because every value of the type is below 2^w.
func (ex *Exec) bvOf(t *smt.Term, w int) *smt.Term {
	c := ex.W.C
	bs := smt.BVSort(w)
	i2b := fmt.Sprintf("(_ int2bv %d)", w)
	if t.Sort.IsBV() {
		return t
	}
	if ex.bvLeaf == nil {
		ex.bvLeaf = map[[2]int]*smt.Term{}
	}
	key := [2]int{w, t.ID}
	if r, ok := ex.bvLeaf[key]; ok {
		return r
	}
	var r *smt.Term
	switch {
	case t.Kind == smt.KLit || (t.Kind == smt.KApp && t.Op == "bv2nat") || c.HasVar(t):
		r = c.App(i2b, bs, t)
	case t.Kind == smt.KApp && t.Op == "ite" && len(t.Args) == 3:
		r = c.Ite(t.Args[0], ex.bvOf(t.Args[1], w), ex.bvOf(t.Args[2], w))
	default:
		r = c.Fresh("bv", bs)
		ex.assume(c.EqRaw(t, c.App("bv2nat", smt.Int, r)))
	}
	ex.bvLeaf[key] = r
	return r
}

func (ex *Exec) bitsFor(t types.Type) (int, bool) {
	if n, ok := t.(*types.Named); ok {
		if w, ok := ex.bitsDecl[n.Obj().Name()]; ok {
			return w, true
		}
	}
	return 0, false
}

package main

import (
	"fmt"
	"go/token"
	"go/types"
	"math/big"

	"golang.org/x/tools/go/ssa"

	"govc/smt"
)

// step executes one non-control instruction; it returns the (possibly strengthened) path condition.
func (ex *Exec) step(fr *Frame, in ssa.Instruction, st *State, cur *smt.Term) *smt.Term {
	c := ex.W.C
	switch x := in.(type) {
	case *ssa.DebugRef:
		return cur
	case *ssa.Alloc:
		el := x.Type().(*types.Pointer).Elem()
		if !x.Heap {
			st.locals[x] = ex.W.Zero(el)
			fr.vals[x] = Val{T: x.Type(), Addr: &Addr{Kind: aLocal, Alloc: x, T: el}}
			return cur
		}
		ref := ex.allocRef(st)
		v := Val{T: x.Type(), Tm: ref}
		for _, pd := range ex.ghostsOf(el) {
			// ghost fields of a new object start at the zero value of their type
			env := ex.envFor(fr, st, st, nil)
			if tp := ex.Prog.TypesPkg(pd.PkgPath); tp != nil {
				env.pkg = tp
			}
			rt := env.specType(pd.ResType)
			k := ex.ghostKey(pd.Name, rt)
			st.heap[k.Name] = c.Store(ex.heapGet(st, k), ref, ex.W.Zero(rt))
		}
		a := ex.toAddr(v)
		if a.Kind == aStruct {
			ex.store(st, a, ex.W.Zero(el))
		} else {
			ex.store(st, a, ex.W.Zero(el))
		}
		fr.vals[x] = v
		return cur
	case *ssa.Store:
		addr := ex.val(fr, x.Addr)
		ok := ex.nonNil(addr)
		ex.oblige("nil", ex.anchor(fr, x, x.Pos()), cur, ok, x.Pos(), fr.prefix)
		cur = c.And(cur, ok)
		v := ex.val(fr, x.Val)
		ex.store(st, ex.toAddr(addr), ex.termOf(v, st))
		return cur
	case *ssa.UnOp:
		return ex.unop(fr, x, st, cur)
	case *ssa.BinOp:
		return ex.binop(fr, x, st, cur)
	case *ssa.FieldAddr:
		base := ex.val(fr, x.X)
		ok := ex.nonNil(base)
		ex.oblige("nil", ex.anchor(fr, x, x.Pos()), cur, ok, x.Pos(), fr.prefix)
		cur = c.And(cur, ok)
		a := ex.toAddr(base)
		if a.Kind == aPtr {
			// pointer to an opaque (external) struct: no field model
			ex.note(ex.Abstr, "field-of-opaque-struct")
			fr.vals[x] = ex.freshPtr(x)
			return cur
		}
		fr.vals[x] = Val{T: x.Type(), Addr: a.extend(Step{Field: x.Field})}
		return cur
	case *ssa.Field:
		base := ex.val(fr, x.X)
		dt := ex.W.DT(ex.W.SortOf(base.T))
		ft := base.T.Underlying().(*types.Struct).Field(x.Field).Type()
		if dt == nil {
			fr.vals[x] = ex.fresh("field", ft)
			return cur
		}
		fr.vals[x] = Val{T: ft, Tm: c.Field(dt, x.Field, base.Tm)}
		return cur
	case *ssa.IndexAddr:
		base := ex.val(fr, x.X)
		idx := ex.val(fr, x.Index).Tm
		ex.noteIdx(idx)
		switch bt := base.T.Underlying().(type) {
		case *types.Slice:
			arr, off, ln, _ := ex.sliceParts(base.Tm)
			ok := c.And(c.Le(c.IntLit(0), idx), c.Lt(idx, ln))
			ex.oblige("bounds", ex.anchor(fr, x, x.Pos()), cur, ok, x.Pos(), fr.prefix)
			cur = c.And(cur, ok)
			fr.vals[x] = Val{T: x.Type(), Addr: &Addr{Kind: aElem, Root: arr, T: bt.Elem(), Path: []Step{{Idx: c.Add(off, idx)}}}}
		case *types.Pointer:
			at := bt.Elem().Underlying().(*types.Array)
			okn := ex.nonNil(base)
			ex.oblige("nil", ex.anchor(fr, x, x.Pos()), cur, okn, x.Pos(), fr.prefix)
			ok := c.And(c.Le(c.IntLit(0), idx), c.Lt(idx, c.IntLit(at.Len())))
			ex.oblige("bounds", ex.anchor(fr, x, x.Pos()), cur, ok, x.Pos(), fr.prefix)
			cur = c.And(cur, okn, ok)
			fr.vals[x] = Val{T: x.Type(), Addr: ex.toAddr(base).extend(Step{Idx: idx})}
		default:
			panic("IndexAddr on " + base.T.String())
		}
		return cur
	case *ssa.Index:
		base := ex.val(fr, x.X)
		idx := ex.val(fr, x.Index).Tm
		switch bt := base.T.Underlying().(type) {
		case *types.Array:
			ok := c.And(c.Le(c.IntLit(0), idx), c.Lt(idx, c.IntLit(bt.Len())))
			ex.oblige("bounds", ex.anchor(fr, x, x.Pos()), cur, ok, x.Pos(), fr.prefix)
			cur = c.And(cur, ok)
			fr.vals[x] = ex.loaded(bt.Elem(), c.Select(base.Tm, idx), st)
		case *types.Basic: // string
			ln := ex.strLen(base.Tm)
			ok := c.And(c.Le(c.IntLit(0), idx), c.Lt(idx, ln))
			ex.oblige("bounds", ex.anchor(fr, x, x.Pos()), cur, ok, x.Pos(), fr.prefix)
			cur = c.And(cur, ok)
			v := c.App("str_at", smt.Int, base.Tm, idx)
			ex.assume(c.And(c.Le(c.IntLit(0), v), c.Lt(v, c.IntLit(256))))
			fr.vals[x] = Val{T: x.Type(), Tm: v}
		default:
			fr.vals[x] = ex.fresh("index", x.Type())
		}
		return cur
	case *ssa.Slice:
		return ex.sliceInstr(fr, x, st, cur)
	case *ssa.MakeSlice:
		ln := ex.val(fr, x.Len).Tm
		cp := ex.val(fr, x.Cap).Tm
		ok := c.And(c.Le(c.IntLit(0), ln), c.Le(ln, cp))
		ex.oblige("makeslice", ex.anchor(fr, x, x.Pos()), cur, ok, x.Pos(), fr.prefix)
		cur = c.And(cur, ok)
		el := x.Type().Underlying().(*types.Slice).Elem()
		ref := ex.allocRef(st)
		k := ex.keyElem(el)
		st.heap[k.Name] = c.Store(ex.heapGet(st, k), ref, ex.W.zeroOfSort(k.Sort.ArrayElem()))
		fr.vals[x] = Val{T: x.Type(), Tm: ex.mkSlice(ref, c.IntLit(0), ln, cp)}
		return cur
	case *ssa.MakeMap, *ssa.MakeChan:
		v := in.(ssa.Value)
		ref := ex.allocRef(st)
		fr.vals[v] = Val{T: v.Type(), Tm: ref}
		return cur
	case *ssa.MakeClosure:
		fr.vals[x] = ex.makeClosure(fr, x, st)
		// captured variables may be written by the closure whenever it runs: treat captured heap allocs as escaping (they are heap Allocs already)
		return cur
	case *ssa.MakeInterface:
		v := ex.val(fr, x.X)
		fr.vals[x] = Val{T: x.Type(), Tm: ex.box(v, st)}
		return cur
	case *ssa.ChangeInterface:
		fr.vals[x] = Val{T: x.Type(), Tm: ex.val(fr, x.X).Tm}
		return cur
	case *ssa.ChangeType:
		v := ex.val(fr, x.X)
		v.T = x.Type()
		fr.vals[x] = v
		return cur
	case *ssa.Convert:
		src := ex.val(fr, x.X)
		cv := ex.convert(src, x.Type(), st)
		if src.Tok != nil {
			// []byte(sequence): the bytes are still that escape sequence
			if sl, isSl := x.Type().Underlying().(*types.Slice); isSl {
				if b, isB := sl.Elem().Underlying().(*types.Basic); isB && b.Kind() == types.Uint8 {
					cv.Tok = src.Tok
				}
			}
		}
		fr.vals[x] = cv
		return cur
	case *ssa.MultiConvert:
		fr.vals[x] = ex.fresh("multiconv", x.Type())
		return cur
	case *ssa.SliceToArrayPointer:
		fr.vals[x] = ex.freshPtr(x)
		ex.note(ex.Abstr, "slice-to-array-pointer")
		return cur
	case *ssa.TypeAssert:
		return ex.typeAssert(fr, x, st, cur)
	case *ssa.Extract:
		t := ex.val(fr, x.Tuple)
		if x.Index < len(t.Tup) {
			fr.vals[x] = t.Tup[x.Index]
		} else {
			fr.vals[x] = ex.fresh("extract", x.Type())
		}
		return cur
	case *ssa.Lookup:
		if v, ok := ex.constMapLookup(fr, x); ok {
			fr.vals[x] = v
			return cur
		}
		// map lookup / string index with comma-ok: contents unmodelled
		ex.note(ex.Abstr, "map-lookup")
		fr.vals[x] = ex.freshFor("lookup", x.Type(), st)
		return cur
	case *ssa.MapUpdate:
		m := ex.val(fr, x.Map)
		ok := c.Not(c.Eq(m.Tm, c.IntLit(0)))
		ex.oblige("nilmap", ex.anchor(fr, x, x.Pos()), cur, ok, x.Pos(), fr.prefix)
		return c.And(cur, ok)
	case *ssa.Range:
		fr.vals[x] = Val{T: x.Type(), Tm: c.IntLit(0)}
		return cur
	case *ssa.Next:
		ex.note(ex.Abstr, "range-over-map-or-string")
		fr.vals[x] = ex.freshFor("next", x.Type(), st)
		return cur
	case *ssa.Send:
		ex.note(ex.Abstr, "chan-send")
		return cur
	case *ssa.Select:
		ex.note(ex.Abstr, "select")
		sv := ex.freshFor("select", x.Type(), st)
		if len(sv.Tup) > 0 {
			lo := int64(0)
			if !x.Blocking {
				lo = -1
			}
			ex.assume(c.And(c.Le(c.IntLit(lo), sv.Tup[0].Tm), c.Lt(sv.Tup[0].Tm, c.IntLit(int64(len(x.States))))))
		}
		fr.vals[x] = sv
		return cur
	case *ssa.Go:
		ex.note(ex.Abstr, "go-statement")
		return cur
	case *ssa.Defer:
		fr.defers = append(fr.defers, x)
		if fr.deferCond == nil {
			fr.deferCond = map[*ssa.Defer]*smt.Term{}
		}
		fr.deferCond[x] = cur
		return cur
	case *ssa.RunDefers:
		for i := len(fr.defers) - 1; i >= 0; i-- {
			d := fr.defers[i]
			if !d.Block().Dominates(fr.curBlock) {
				inLoop := false
				for _, li := range fr.loops {
					if li.blocks[d.Block()] {
						inLoop = true
					}
				}
				if inLoop {
					ex.note(ex.Abstr, "conditional-defer-in-loop")
					ex.havocAll(st)
					continue
				}
				if !blockReaches(d.Block(), fr.curBlock) {
					continue // no path from the defer statement to this return
				}
				// registered on some paths only: the call runs exactly on the paths that passed the defer statement
				cond := fr.deferCond[d]
				before := st.clone()
				ex.noCover++ // (on the other paths the guarded call is unreachable by construction)
				_, cur2 := ex.call(fr, &d.Call, d, st, c.And(cur, cond), nil)
				ex.noCover--
				merged := ex.mergeStates([]*smt.Term{cond, c.Not(cond)}, []*State{st, before})
				*st = *merged
				cur = c.Or(cur2, c.And(cur, c.Not(cond)))
				continue
			}
			_, cur = ex.call(fr, &d.Call, d, st, cur, nil)
		}
		return cur
	case *ssa.Call:
		v, ncur := ex.call(fr, &x.Call, x, st, cur, x)
		fr.vals[x] = v
		return ncur
	}
	panic(fmt.Sprintf("unhandled instruction %T: %s", in, in))
}

func (ex *Exec) freshPtr(v ssa.Value) Val {
	r := ex.fresh(v.Name(), v.Type())
	return r
}

func (ex *Exec) freshFor(name string, t types.Type, st *State) Val {
	v := ex.fresh(name, t)
	ex.boundAll(v, st)
	return v
}

func (ex *Exec) boundAll(v Val, st *State) {
	if len(v.Tup) > 0 {
		for _, e := range v.Tup {
			ex.boundAll(e, st)
		}
		return
	}
	ex.boundPtr(v, st)
}

// termOf gives the term of a value for storing into memory.
func (ex *Exec) termOf(v Val, st *State) *smt.Term {
	if v.Tm != nil {
		return v.Tm
	}
	if v.Addr != nil {
		return ex.ptrTerm(v)
	}
	panic("termOf: no term")
}

func (ex *Exec) unop(fr *Frame, x *ssa.UnOp, st *State, cur *smt.Term) *smt.Term {
	c := ex.W.C
	v := ex.val(fr, x.X)
	switch x.Op {
	case token.MUL: // load
		ok := ex.nonNil(v)
		ex.oblige("nil", ex.anchor(fr, x, x.Pos()), cur, ok, x.Pos(), fr.prefix)
		cur = c.And(cur, ok)
		a := ex.toAddr(v)
		fr.vals[x] = ex.loaded(x.Type(), ex.load(st, a), st)
		return cur
	case token.NOT:
		fr.vals[x] = Val{T: x.Type(), Tm: c.Not(v.Tm)}
	case token.SUB:
		if isFloat(x.Type()) {
			fr.vals[x] = Val{T: x.Type(), Tm: c.Neg(v.Tm)}
		} else {
			fr.vals[x] = Val{T: x.Type(), Tm: ex.wrap(c.Neg(v.Tm), x.Type(), false)}
		}
	case token.XOR:
		if v.Tm.Sort.IsBV() {
			fr.vals[x] = Val{T: x.Type(), Tm: c.App("bvnot", v.Tm.Sort, v.Tm)}
			return cur
		}
		_, hi, uns, _ := intRange(x.Type())
		if uns {
			fr.vals[x] = Val{T: x.Type(), Tm: c.Sub(c.Sub(c.BigLit(hi), c.IntLit(1)), v.Tm)}
		} else {
			fr.vals[x] = Val{T: x.Type(), Tm: c.Sub(c.Neg(v.Tm), c.IntLit(1))}
		}
	case token.ARROW:
		ex.note(ex.Abstr, "chan-recv")
		fr.vals[x] = ex.freshFor("recv", x.Type(), st)
	default:
		panic("unop " + x.Op.String())
	}
	return cur
}

func (ex *Exec) binop(fr *Frame, x *ssa.BinOp, st *State, cur *smt.Term) *smt.Term {
	c := ex.W.C
	a, b := ex.val(fr, x.X), ex.val(fr, x.Y)
	t := x.Type()
	set := func(tm *smt.Term) { fr.vals[x] = Val{T: t, Tm: tm} }
	ot := a.T // operand type
	if a.Tm != nil && b.Tm != nil && a.Tm.Sort.IsBV() && a.Tm.Sort == b.Tm.Sort {
		bs := a.Tm.Sort
		switch x.Op {
		case token.AND:
			set(c.App("bvand", bs, a.Tm, b.Tm))
			return cur
		case token.OR:
			set(c.App("bvor", bs, a.Tm, b.Tm))
			return cur
		case token.XOR:
			set(c.App("bvxor", bs, a.Tm, b.Tm))
			return cur
		case token.AND_NOT:
			set(c.App("bvand", bs, a.Tm, c.App("bvnot", bs, b.Tm)))
			return cur
		case token.ADD:
			set(c.App("bvadd", bs, a.Tm, b.Tm))
			return cur
		case token.SUB:
			set(c.App("bvsub", bs, a.Tm, b.Tm))
			return cur
		case token.MUL:
			set(c.App("bvmul", bs, a.Tm, b.Tm))
			return cur
		case token.LSS:
			set(c.App("bvult", smt.Bool, a.Tm, b.Tm))
			return cur
		case token.LEQ:
			set(c.App("bvule", smt.Bool, a.Tm, b.Tm))
			return cur
		case token.GTR:
			set(c.App("bvugt", smt.Bool, a.Tm, b.Tm))
			return cur
		case token.GEQ:
			set(c.App("bvuge", smt.Bool, a.Tm, b.Tm))
			return cur
		}
	}
	if a.Tm != nil && a.Tm.Sort.IsBV() && (x.Op == token.SHL || x.Op == token.SHR) {
		bs := a.Tm.Sort
		sh := b.Tm
		if !sh.Sort.IsBV() {
			sh = c.App(fmt.Sprintf("(_ int2bv %d)", bs.BVWidth()), bs, sh)
		}
		if x.Op == token.SHL {
			set(c.App("bvshl", bs, a.Tm, sh))
		} else {
			set(c.App("bvlshr", bs, a.Tm, sh))
		}
		return cur
	}
	switch x.Op {
	case token.EQL, token.NEQ:
		eq := ex.equal(a, b, st)
		if bw, ok := ex.W.BridgeWidth(ot); ok && a.Tm != nil && b.Tm != nil && a.Tm.Sort == smt.Int {
			// values of a `bvtype` type are compared as the bit-vectors they are (both are below 2^width)
			eq = c.Eq(ex.bvOf(a.Tm, bw), ex.bvOf(b.Tm, bw))
		}
		if x.Op == token.NEQ {
			eq = c.Not(eq)
		}
		set(eq)
		return cur
	case token.LSS, token.LEQ, token.GTR, token.GEQ:
		if isString(ot) {
			ex.note(ex.Abstr, "string-order")
			set(c.Fresh("strcmp", smt.Bool))
			return cur
		}
		switch x.Op {
		case token.LSS:
			set(c.Lt(a.Tm, b.Tm))
		case token.LEQ:
			set(c.Le(a.Tm, b.Tm))
		case token.GTR:
			set(c.Gt(a.Tm, b.Tm))
		case token.GEQ:
			set(c.Ge(a.Tm, b.Tm))
		}
		return cur
	}
	if isString(t) && x.Op == token.ADD {
		r := c.App("str_cat", ex.W.Str, a.Tm, b.Tm)
		ex.assume(c.Eq(ex.strLen(r), c.Add(ex.strLen(a.Tm), ex.strLen(b.Tm))))
		ex.assume(c.Le(c.IntLit(0), ex.strLen(a.Tm)))
		ex.assume(c.Le(c.IntLit(0), ex.strLen(b.Tm)))
		set(r)
		return cur
	}
	if isFloat(t) {
		switch x.Op {
		case token.ADD:
			set(c.Add(a.Tm, b.Tm))
		case token.SUB:
			set(c.Sub(a.Tm, b.Tm))
		case token.MUL:
			set(c.Mul(a.Tm, b.Tm))
		case token.QUO:
			set(c.RDiv(a.Tm, b.Tm))
		default:
			panic("float op " + x.Op.String())
		}
		ex.note(ex.Abstr, "float-as-real")
		return cur
	}
	if b, ok := t.Underlying().(*types.Basic); ok && b.Info()&types.IsComplex != 0 {
		set(c.Fresh("complex", ex.W.SortOf(t)))
		return cur
	}
	uns := isUnsigned(t)
	ovf := func(r *smt.Term) {
		if fr.top && fr.fc != nil && fr.fc.Overflow && !uns {
			lo, hi, _, ok := intRange(t)
			if ok {
				goal := c.And(c.Le(c.BigLit(lo), r), c.Lt(r, c.BigLit(hi)))
				ex.oblige("overflow", ex.anchor(fr, x, x.Pos()), cur, goal, x.Pos(), fr.prefix)
				cur = c.And(cur, goal)
			}
		}
	}
	switch x.Op {
	case token.ADD:
		ovf(c.Add(a.Tm, b.Tm))
		set(ex.wrap(c.Add(a.Tm, b.Tm), t, false))
	case token.SUB:
		ovf(c.Sub(a.Tm, b.Tm))
		set(ex.wrap(c.Sub(a.Tm, b.Tm), t, false))
	case token.MUL:
		ovf(c.Mul(a.Tm, b.Tm))
		set(ex.wrap(c.Mul(a.Tm, b.Tm), t, false))
	case token.QUO:
		ok := c.Not(c.Eq(b.Tm, c.IntLit(0)))
		ex.oblige("div", ex.anchor(fr, x, x.Pos()), cur, ok, x.Pos(), fr.prefix)
		cur = c.And(cur, ok)
		set(ex.goDiv(a.Tm, b.Tm, uns))
	case token.REM:
		ok := c.Not(c.Eq(b.Tm, c.IntLit(0)))
		ex.oblige("div", ex.anchor(fr, x, x.Pos()), cur, ok, x.Pos(), fr.prefix)
		cur = c.And(cur, ok)
		set(ex.goMod(a.Tm, b.Tm, uns))
	case token.AND, token.OR, token.XOR, token.AND_NOT:
		_, aLit := a.Tm.IntVal()
		_, bLit := b.Tm.IntVal()
		if !aLit && !bLit && fr.top && fr.fc != nil && fr.fc.BitWidth > 0 {
			// cheap exact case: one operand is a multiple of 2^k and the other lies below 2^k (disjoint bits)
			if x.Op == token.OR || x.Op == token.XOR {
				for _, pr := range [][2]*smt.Term{{a.Tm, b.Tm}, {b.Tm, a.Tm}} {
					if k := pow2Multiple(pr[0]); k > 0 {
						rng := c.And(c.Le(c.IntLit(0), pr[0]), c.Le(c.IntLit(0), pr[1]), c.Lt(pr[1], c.BigLit(pow2(uint(k)))))
						ex.oblige("bitrange", ex.anchor(fr, x, x.Pos()), cur, rng, x.Pos(), fr.prefix)
						cur = c.And(cur, rng)
						set(c.Add(a.Tm, b.Tm))
						return cur
					}
				}
			}
			w := uint(fr.fc.BitWidth)
			lim := c.BigLit(pow2(w))
			rng := c.And(c.Le(c.IntLit(0), a.Tm), c.Lt(a.Tm, lim), c.Le(c.IntLit(0), b.Tm), c.Lt(b.Tm, lim))
			ex.oblige("bitrange", ex.anchor(fr, x, x.Pos()), cur, rng, x.Pos(), fr.prefix)
			cur = c.And(cur, rng)
			saved, had := ex.bitsDecl["!force"]
			ex.bitsDecl["!force"] = int(w)
			r, _ := ex.bitop(x.Op.String(), a.Tm, b.Tm, t)
			if had {
				ex.bitsDecl["!force"] = saved
			} else {
				delete(ex.bitsDecl, "!force")
			}
			set(r)
			return cur
		}
		r, ok := ex.bitop(x.Op.String(), a.Tm, b.Tm, t)
		if !ok {
			ex.note(ex.Abstr, "bitop-symbolic:"+typeKey(t))
		}
		set(r)
	case token.SHL:
		r, ok := ex.bitop("<<", a.Tm, b.Tm, t)
		if !ok {
			ex.note(ex.Abstr, "shift-symbolic")
		} else {
			r = ex.wrap(r, t, false)
		}
		set(r)
	case token.SHR:
		r, ok := ex.bitop(">>", a.Tm, b.Tm, t)
		if !ok {
			ex.note(ex.Abstr, "shift-symbolic")
		}
		set(r)
	default:
		panic("binop " + x.Op.String())
	}
	return cur
}

// equal is Go's == on two values of the same type.
func (ex *Exec) equal(a, b Val, st *State) *smt.Term {
	c := ex.W.C
	switch a.T.Underlying().(type) {
	case *types.Pointer:
		if a.Addr != nil && b.Addr != nil {
			if sameAddr(a.Addr, b.Addr) {
				return c.True()
			}
		}
		// an interior/local address is never nil
		if a.Addr != nil && a.Tm == nil && b.Tm != nil {
			if _, ok := b.Tm.IntVal(); ok && (a.Addr.Kind == aLocal || a.Addr.Kind == aGlobal || a.Addr.Kind == aElem || len(a.Addr.Path) > 0) {
				return c.False()
			}
		}
		return c.Eq(ex.ptrTerm(a), ex.ptrTerm(b))
	case *types.Slice:
		// only comparison with nil is legal
		arr, _, _, _ := ex.sliceParts(a.Tm)
		arr2, _, _, _ := ex.sliceParts(b.Tm)
		if bz, ok := arr2.IntVal(); ok && bz.Sign() == 0 {
			return c.Eq(arr, c.IntLit(0))
		}
		return c.Eq(arr2, c.IntLit(0))
	case *types.Interface:
		at, bt := a.Tm, b.Tm
		return c.Eq(at, bt)
	}
	if _, ok := b.T.Underlying().(*types.Interface); ok {
		return c.Eq(a.Tm, b.Tm)
	}
	if r := ex.emptyStrEq(a.Tm, b.Tm); r != nil {
		return r
	}
	return c.Eq(a.Tm, b.Tm)
}

// emptyStrEq: comparing a string with the empty literal is comparing its length with zero (the empty string is
// the only string of length zero).
func (ex *Exec) emptyStrEq(a, b *smt.Term) *smt.Term {
	if a == nil || b == nil || a.Sort != ex.W.Str {
		return nil
	}
	empty, have := ex.W.strLits[""]
	if !have {
		return nil
	}
	c := ex.W.C
	if a == empty && b != empty {
		return c.Eq(ex.strLen(b), c.IntLit(0))
	}
	if b == empty && a != empty {
		return c.Eq(ex.strLen(a), c.IntLit(0))
	}
	return nil
}

func (ex *Exec) sliceInstr(fr *Frame, x *ssa.Slice, st *State, cur *smt.Term) *smt.Term {
	c := ex.W.C
	base := ex.val(fr, x.X)
	zero := c.IntLit(0)
	get := func(v ssa.Value, def *smt.Term) *smt.Term {
		if v == nil {
			return def
		}
		return ex.val(fr, v).Tm
	}
	switch bt := base.T.Underlying().(type) {
	case *types.Slice:
		arr, off, ln, cp := ex.sliceParts(base.Tm)
		lo := get(x.Low, zero)
		hi := get(x.High, ln)
		mx := get(x.Max, cp)
		ok := c.And(c.Le(zero, lo), c.Le(lo, hi), c.Le(hi, mx), c.Le(mx, cp))
		ex.oblige("slice", ex.anchor(fr, x, x.Pos()), cur, ok, x.Pos(), fr.prefix)
		cur = c.And(cur, ok)
		fr.vals[x] = Val{T: x.Type(), Tm: ex.mkSlice(arr, c.Add(off, lo), c.Sub(hi, lo), c.Sub(mx, lo))}
	case *types.Basic: // string
		ln := ex.strLen(base.Tm)
		lo := get(x.Low, zero)
		hi := get(x.High, ln)
		ok := c.And(c.Le(zero, lo), c.Le(lo, hi), c.Le(hi, ln))
		ex.oblige("slice", ex.anchor(fr, x, x.Pos()), cur, ok, x.Pos(), fr.prefix)
		cur = c.And(cur, ok)
		r := c.App("str_sub", ex.W.Str, base.Tm, lo, hi)
		ex.assume(c.Implies(ok, c.Eq(ex.strLen(r), c.Sub(hi, lo))))
		fr.vals[x] = Val{T: x.Type(), Tm: r}
	case *types.Pointer: // pointer to array
		at := bt.Elem().Underlying().(*types.Array)
		n := c.IntLit(at.Len())
		lo := get(x.Low, zero)
		hi := get(x.High, n)
		mx := get(x.Max, n)
		okn := ex.nonNil(base)
		ok := c.And(okn, c.Le(zero, lo), c.Le(lo, hi), c.Le(hi, mx), c.Le(mx, n))
		ex.oblige("slice", ex.anchor(fr, x, x.Pos()), cur, ok, x.Pos(), fr.prefix)
		cur = c.And(cur, ok)
		// the array's contents are copied into a fresh backing array (aliasing with the array variable is not modelled)
		ex.note(ex.Abstr, "array-sliced-by-copy")
		arrVal := ex.load(st, ex.toAddr(base))
		ref := ex.allocRef(st)
		k := ex.keyElem(at.Elem())
		st.heap[k.Name] = c.Store(ex.heapGet(st, k), ref, arrVal)
		fr.vals[x] = Val{T: x.Type(), Tm: ex.mkSlice(ref, lo, c.Sub(hi, lo), c.Sub(mx, lo))}
	default:
		panic("slice of " + base.T.String())
	}
	return cur
}

func (ex *Exec) convert(v Val, to types.Type, st *State) Val {
	c := ex.W.C
	from := v.T
	// bit-vector modelled types: bridge only at conversions
	if v.Tm != nil && v.Tm.Sort.IsBV() {
		fw := v.Tm.Sort.BVWidth()
		if tw, ok := ex.W.BVWidth(to); ok {
			switch {
			case tw == fw:
				return Val{T: to, Tm: v.Tm}
			case tw < fw:
				return Val{T: to, Tm: c.App(fmt.Sprintf("(_ extract %d 0)", tw-1), smt.BVSort(tw), v.Tm)}
			default:
				return Val{T: to, Tm: c.App(fmt.Sprintf("(_ zero_extend %d)", tw-fw), smt.BVSort(tw), v.Tm)}
			}
		}
		n := c.App("bv2nat", smt.Int, v.Tm)
		ex.assume(c.And(c.Le(c.IntLit(0), n), c.Lt(n, c.BigLit(pow2(uint(fw))))))
		return ex.convert(Val{T: types.Typ[types.Uint64], Tm: n}, to, st)
	}
	if tw, ok := ex.W.BVWidth(to); ok && v.Tm != nil && v.Tm.Sort == smt.Int {
		if n, isLit := v.Tm.IntVal(); isLit {
			return Val{T: to, Tm: c.BVLit(new(big.Int).Mod(n, pow2(uint(tw))).Uint64(), tw)}
		}
		return Val{T: to, Tm: c.App(fmt.Sprintf("(_ int2bv %d)", tw), smt.BVSort(tw), v.Tm)}
	}
	switch {
	case isInteger(from) && isInteger(to):
		flo, fhi, _, _ := intRange(from)
		tlo, thi, _, _ := intRange(to)
		if flo.Cmp(tlo) >= 0 && fhi.Cmp(thi) <= 0 {
			return Val{T: to, Tm: v.Tm}
		}
		return Val{T: to, Tm: ex.wrap(v.Tm, to, true)}
	case isInteger(from) && isFloat(to):
		return Val{T: to, Tm: c.ToReal(v.Tm)}
	case isFloat(from) && isInteger(to):
		ex.note(ex.Abstr, "float-as-real")
		tr := c.Ite(c.Ge(v.Tm, c.RealLit(ratZero)), c.ToIntFloor(v.Tm), c.Neg(c.ToIntFloor(c.Neg(v.Tm))))
		return Val{T: to, Tm: tr}
	case isFloat(from) && isFloat(to):
		return Val{T: to, Tm: v.Tm}
	case isInteger(from) && isString(to):
		return Val{T: to, Tm: c.App("str_of_rune", ex.W.Str, v.Tm)}
	case isString(to):
		// []byte / []rune -> string
		r := ex.fresh("str_conv", to)
		if _, ok := from.Underlying().(*types.Slice); ok {
			if el := from.Underlying().(*types.Slice).Elem(); bitsOf(el) == 8 {
				_, _, ln, _ := ex.sliceParts(v.Tm)
				ex.assume(c.Eq(ex.strLen(r.Tm), ln))
			}
		}
		return r
	case isString(from):
		// string -> []byte / []rune
		r := ex.fresh("bytes_conv", to)
		ref := ex.allocRef(st)
		_, _, ln, cp := ex.sliceParts(r.Tm)
		nv := ex.mkSlice(ref, c.IntLit(0), ln, cp)
		if el := to.Underlying().(*types.Slice).Elem(); bitsOf(el) == 8 {
			ex.assume(c.Eq(ln, ex.strLen(v.Tm)))
		} else {
			// one rune per 1..4 bytes
			ex.assume(c.And(c.Le(ln, ex.strLen(v.Tm)), c.Ge(c.Mul(c.IntLit(4), ln), ex.strLen(v.Tm))))
		}
		ex.assume(c.Le(c.IntLit(0), ex.strLen(v.Tm)))
		k := ex.keyElem(to.Underlying().(*types.Slice).Elem())
		ex.havocKeyAt(st, k, ref)
		return Val{T: to, Tm: nv}
	}
	if ex.W.SortOf(from) == ex.W.SortOf(to) {
		return Val{T: to, Tm: v.Tm, Addr: v.Addr}
	}
	return ex.fresh("conv", to)
}

func (ex *Exec) havocKeyAt(st *State, k *HeapKey, ref *smt.Term) {
	c := ex.W.C
	st.heap[k.Name] = c.Store(ex.heapGet(st, k), ref, c.Fresh("hv_"+k.Name, k.Sort.ArrayElem()))
}

// box wraps a concrete value into an interface term.
func (ex *Exec) box(v Val, st *State) *smt.Term {
	c := ex.W.C
	if _, isIface := v.T.Underlying().(*types.Interface); isIface {
		return v.Tm
	}
	s := ex.W.SortOf(v.T)
	tk := smt.Mangle(typeKey(v.T))
	bname := "box_" + tk
	uname := "unbox_" + tk
	ex.W.C.DeclareFun(bname, []smt.Sort{s}, ex.W.Iface)
	ex.W.C.DeclareFun(uname, []smt.Sort{ex.W.Iface}, s)
	tm := ex.termOf(v, st)
	b := c.App(bname, ex.W.Iface, tm)
	ex.assume(c.Eq(c.App("iface_tag", smt.Int, b), c.IntLit(int64(ex.W.TypeID(v.T)))))
	ex.assume(c.Eq(c.App(uname, s, b), tm))
	ex.assume(c.Eq(c.App("iface_tag", smt.Int, ex.W.zeroOfSort(ex.W.Iface)), c.IntLit(0)))
	return b
}

func (ex *Exec) typeAssert(fr *Frame, x *ssa.TypeAssert, st *State, cur *smt.Term) *smt.Term {
	c := ex.W.C
	v := ex.val(fr, x.X)
	at := x.AssertedType
	var okT *smt.Term
	var res Val
	if _, isIface := at.Underlying().(*types.Interface); isIface {
		// interface-to-interface: succeeds iff dynamic type implements it; unknown here
		okT = c.Fresh("implements", smt.Bool)
		// a nil interface never satisfies an assertion
		ex.assume(c.Implies(okT, c.Not(c.Eq(v.Tm, ex.W.zeroOfSort(ex.W.Iface)))))
		res = Val{T: at, Tm: v.Tm}
	} else {
		s := ex.W.SortOf(at)
		tk := smt.Mangle(typeKey(at))
		ex.W.C.DeclareFun("box_"+tk, []smt.Sort{s}, ex.W.Iface)
		ex.W.C.DeclareFun("unbox_"+tk, []smt.Sort{ex.W.Iface}, s)
		okT = c.Eq(c.App("iface_tag", smt.Int, v.Tm), c.IntLit(int64(ex.W.TypeID(at))))
		u := c.App("unbox_"+tk, s, v.Tm)
		if x.CommaOk {
			u = c.Ite(okT, u, ex.W.zeroOfSort(s))
		}
		res = ex.loaded(at, u, st)
	}
	if x.CommaOk {
		fr.vals[x] = Val{T: x.Type(), Tup: []Val{res, {T: types.Typ[types.Bool], Tm: okT}}}
		return cur
	}
	ex.oblige("typeassert", ex.anchor(fr, x, x.Pos()), cur, okT, x.Pos(), fr.prefix)
	fr.vals[x] = res
	return c.And(cur, okT)
}

// makeClosure models a closure value as an application of a per-target uninterpreted function to its
// bindings, remembering the target function and the bindings so that indirect calls can be resolved.
func (ex *Exec) makeClosure(fr *Frame, x *ssa.MakeClosure, st *State) Val {
	c := ex.W.C
	fn, ok := x.Fn.(*ssa.Function)
	if !ok {
		return Val{T: x.Type(), Tm: c.Fresh("closure", smt.Int)}
	}
	var args []*smt.Term
	var sorts []smt.Sort
	for _, b := range x.Bindings {
		bv := ex.val(fr, b)
		var t *smt.Term
		if bv.Tm != nil {
			t = bv.Tm
		} else if bv.Addr != nil {
			t = ex.ptrTerm(bv)
		}
		if t == nil || t.Sort != smt.Int {
			return Val{T: x.Type(), Tm: c.Fresh("closure", smt.Int)}
		}
		args = append(args, t)
		sorts = append(sorts, smt.Int)
	}
	id := ex.Prog.FuncID(ex.Prog.BoundTarget(fn))
	name := fmt.Sprintf("closure_%d", id)
	ex.W.C.DeclareFun(name, sorts, smt.Int)
	ex.W.C.DeclareFun("closure_fn", []smt.Sort{smt.Int}, smt.Int)
	var tm *smt.Term
	if len(args) == 0 {
		tm = c.Const(name+"_0", smt.Int)
	} else {
		tm = c.App(name, smt.Int, args...)
	}
	ex.assume(c.Lt(c.IntLit(100000000), tm)) // distinct from nil and from plain function ids
	ex.assume(c.Eq(c.App("closure_fn", smt.Int, tm), c.IntLit(int64(id))))
	for i, a := range args {
		bn := fmt.Sprintf("closure_bind%d", i)
		ex.W.C.DeclareFun(bn, []smt.Sort{smt.Int}, smt.Int)
		ex.assume(c.Eq(c.App(bn, smt.Int, tm), a))
	}
	return Val{T: x.Type(), Tm: tm}
}

// pow2Multiple returns the largest k such that t is syntactically a multiple of 2^k (0 if unknown).
func pow2Multiple(t *smt.Term) int {
	if n, ok := t.IntVal(); ok {
		if n.Sign() == 0 {
			return 62
		}
		k := 0
		for n.Bit(k) == 0 && k < 62 {
			k++
		}
		return k
	}
	if t.Kind != smt.KApp {
		return 0
	}
	switch t.Op {
	case "*":
		if len(t.Args) == 2 {
			return pow2Multiple(t.Args[0]) + pow2MultipleLit(t.Args[1]) + pow2MultipleNonLit(t.Args[0], t.Args[1])
		}
	case "+":
		k := 1 << 30
		for _, a := range t.Args {
			if ka := pow2Multiple(a); ka < k {
				k = ka
			}
		}
		return k
	}
	return 0
}

func pow2MultipleLit(t *smt.Term) int {
	if _, ok := t.IntVal(); ok {
		return pow2Multiple(t)
	}
	return 0
}

func pow2MultipleNonLit(a, b *smt.Term) int {
	// a*b with a non-literal b contributes b's own factor (a's was counted by the caller)
	if _, ok := b.IntVal(); ok {
		return 0
	}
	return pow2Multiple(b)
}

// constMapLookup: a lookup in a package-level map that only the package initialiser fills is a pure
// function of the key (uninterpreted: the table's contents are not interpreted).
func (ex *Exec) constMapLookup(fr *Frame, x *ssa.Lookup) (Val, bool) {
	ld, ok := x.X.(*ssa.UnOp)
	if !ok {
		return Val{}, false
	}
	g, ok := ld.X.(*ssa.Global)
	if !ok || !ex.Prog.GlobalMapConst(g) {
		return Val{}, false
	}
	mt := g.Type().(*types.Pointer).Elem().Underlying().(*types.Map)
	key := ex.val(fr, x.Index)
	if key.Tm == nil {
		return Val{}, false
	}
	return ex.mapLookupTerm(g, mt, key.Tm, x.CommaOk, x.Type()), true
}

func (ex *Exec) mapLookupTerm(g *ssa.Global, mt *types.Map, key *smt.Term, commaOk bool, resT types.Type) Val {
	c := ex.W.C
	name := "uf_map_" + smt.Mangle(g.Pkg.Pkg.Name()+"_"+g.Name())
	vs := ex.W.SortOf(mt.Elem())
	ex.W.C.DeclareFun(name+"_val", []smt.Sort{key.Sort}, vs)
	ex.W.C.DeclareFun(name+"_ok", []smt.Sort{key.Sort}, smt.Bool)
	okT := c.App(name+"_ok", smt.Bool, key)
	val := c.Ite(okT, c.App(name+"_val", vs, key), ex.W.zeroOfSort(vs))
	if entries, ok := ex.Prog.GlobalMapEntries(g); ok && !c.HasVar(key) && ex.wantsMapContents(g.Name()) {
		// the literal's entries are constants: the lookup is a finite case analysis (read from the package initialiser)
		var term func(d *constDesc) *smt.Term
		term = func(d *constDesc) *smt.Term {
			if d.cst != nil {
				return ex.termOf(ex.constVal(d.cst), nil)
			}
			if d.fields == nil {
				return ex.W.Zero(d.t)
			}
			dt := ex.W.DT(ex.W.SortOf(d.t))
			var fs []*smt.Term
			for _, f := range d.fields {
				fs = append(fs, term(f))
			}
			return c.Construct(dt, fs...)
		}
		var hits []*smt.Term
		v := ex.W.zeroOfSort(vs)
		for i := len(entries) - 1; i >= 0; i-- {
			kt, vt := term(entries[i].key), term(entries[i].val)
			if kt == nil || vt == nil || kt.Sort != key.Sort || vt.Sort != vs {
				hits = nil
				break
			}
			eq := c.Eq(key, kt)
			hits = append(hits, eq)
			v = c.Ite(eq, vt, v)
		}
		if hits != nil {
			okT, val = c.Or(hits...), v
			ex.note(ex.Abstr, "const-map-contents:"+g.Name())
		}
	}
	ex.note(ex.Abstr, "const-map-lookup:"+g.Name())
	if commaOk {
		return Val{T: resT, Tup: []Val{{T: mt.Elem(), Tm: val}, {T: types.Typ[types.Bool], Tm: okT}}}
	}
	return Val{T: mt.Elem(), Tm: val}
}

// blockReaches: there is a control-flow path from a to b.
func blockReaches(a, b *ssa.BasicBlock) bool {
	seen := map[*ssa.BasicBlock]bool{}
	var walk func(x *ssa.BasicBlock) bool
	walk = func(x *ssa.BasicBlock) bool {
		if x == b {
			return true
		}
		if seen[x] {
			return false
		}
		seen[x] = true
		for _, s := range x.Succs {
			if walk(s) {
				return true
			}
		}
		return false
	}
	return walk(a)
}

// wantsMapContents: the function under verification asked (clause `mapcontents`) for lookups in this map to be
// expanded over the literal's entries; otherwise a lookup stays an uninterpreted function of the key.
func (ex *Exec) wantsMapContents(name string) bool {
	if ex.FC == nil {
		return false
	}
	for _, m := range ex.FC.MapContents {
		if m == "*" || m == name {
			return true
		}
	}
	return false
}

#!/bin/bash
# maintenance: (re)write claims/<id>.core = the claimed quick-tier obligations that come from contract clauses (postconditions, invariants, lemmas, frames, ...)
# rather than from implicit panic sites. A core name that is generated but no longer claimed makes the check refuse to run (UNCLAIMED-CORE),
# so that regenerating the claim files cannot silently drop the obligations a property rests on.
cd "$(dirname "$0")"
for f in claims/*.quick; do
  id=$(basename "$f" .quick)
  grep -E '#(post|pre|inv-entry|inv-preserved|exit|lemma|loop-assert|vocab|frame|decreases|cut):' "$f" | sort -u > "claims/$id.core"
  echo "$id: $(wc -l < claims/$id.core) core obligations"
done

#!/bin/bash
set -e
cd "$(dirname "$0")"
export GOFLAGS=-mod=mod GOPROXY=off GOSUMDB=off GOTOOLCHAIN=local
mkdir -p bin evidence replay
(cd govc && go build -o ../bin/govc .)
echo "govc built"

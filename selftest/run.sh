#!/bin/bash
# Self-test of the machinery (run after every engine change):
#  (a) must-fail: the reverse patch of every "fix:" commit listed in selftest/fixes.txt, and every patch in
#      selftest/mustfail/<id>/*.diff, applied to a scratch worktree of /repo's HEAD, must make the named property's
#      quick check report a VIOLATION;
#  (b) must-pass: every patch in selftest/harmless/<id>/*.diff must leave the check silent.
# Usage: selftest/run.sh [filter-regexp] [parallel-jobs]
# The run works on private copies of the checker, the claim files and the property files, so that work on the
# engine can go on meanwhile; worktrees live under /root/scratch-verif and are removed at the end.
set -u
V="$(cd "$(dirname "$0")/.." && pwd)"
export GOFLAGS=-mod=mod GOPROXY=off GOSUMDB=off GOTOOLCHAIN=local
FILTER="${1:-.}"
JOBS="${2:-3}"
S=/root/scratch-verif
for d in "$S"/wt*; do [ -d "$d" ] && git -C /repo worktree remove --force "$d" 2>/dev/null; done
rm -rf "$S"; mkdir -p "$S/v/bin" "$S/cases" "$S/res"
git -C /repo worktree prune
cp "$V/bin/govc" "$S/v/bin/govc"; cp -r "$V/claims" "$V/props" "$V/known_findings.json" "$S/v/"

# case list: name|prop|expect|patchfile|reverse
n=0
add_case() { n=$((n+1)); printf '%s|%s|%s|%s|%s\n' "$1" "$2" "$3" "$4" "$5" > "$S/cases/$(printf %03d $n)"; }
while read -r commit prop rest; do
  [ -z "${commit:-}" ] && continue
  case "$commit" in \#*) continue;; esac
  [[ "revert-$commit" =~ $FILTER ]] || continue
  git -C /repo show "$commit" --format= -- . > "$S/fix-$commit.diff"
  add_case "revert-$commit" "$prop" viol "$S/fix-$commit.diff" 1
done < "$V/selftest/fixes.txt"
for f in "$V"/selftest/mustfail/*/*.diff; do [ -e "$f" ] || continue
  prop=$(basename "$(dirname "$f")"); name="mustfail-$prop-$(basename "$f" .diff)"
  [[ "$name" =~ $FILTER ]] || continue
  add_case "$name" "$prop" viol "$f" 0; done
for f in "$V"/selftest/harmless/*/*.diff; do [ -e "$f" ] || continue
  prop=$(basename "$(dirname "$f")"); name="harmless-$prop-$(basename "$f" .diff)"
  [[ "$name" =~ $FILTER ]] || continue
  add_case "$name" "$prop" silent "$f" 0; done

run_case() {
  local file="$1" S=/root/scratch-verif
  IFS='|' read -r name prop expect patch rev < "$file"
  local id; id=$(basename "$file")
  local wt="$S/wt$id"
  git -C /repo worktree add -q --detach "$wt" HEAD 2>/dev/null || { echo "SELFTEST-ERROR $name: cannot add worktree" > "$S/res/$id"; return; }
  local ok=1
  if [ "$rev" = 1 ]; then git -C "$wt" apply -R "$patch" 2>/dev/null || ok=0; else git -C "$wt" apply "$patch" 2>/dev/null || ok=0; fi
  if [ "$ok" = 0 ]; then echo "SELFTEST-ERROR $name: patch does not apply" > "$S/res/$id"; git -C /repo worktree remove --force "$wt"; return; fi
  local out rc; out=$("$S/v/bin/govc" check -j 5 --repo "$wt" --verif "$S/v" --out "$S/out$id" --prop "$prop" 2>&1); rc=$?
  local nv replayed; nv=$(echo "$out" | grep -c '^VIOLATION'); replayed=$(echo "$out" | grep '^VIOLATION' | grep -vc 'no-failing-input-found')
  if [ "$expect" = viol ]; then
    if [ "$rc" = 1 ] && [ "$nv" -gt 0 ]; then echo "ok   $name: $prop reports $nv violation(s), $replayed replayed on the real code" > "$S/res/$id"
    else echo "MISS $name: $prop stayed silent (rc=$rc)" > "$S/res/$id"; fi
  else
    if [ "$rc" = 0 ]; then echo "ok   $name: $prop silent" > "$S/res/$id"
    else { echo "FALSE-ALARM $name: $prop rc=$rc"; echo "$out" | grep '^VIOLATION' | head -3; } > "$S/res/$id"; fi
  fi
  git -C /repo worktree remove --force "$wt"; rm -rf "$S/out$id"
}
export -f run_case
ls "$S"/cases/* 2>/dev/null | xargs -P "$JOBS" -I{} bash -c 'run_case {}'
cat "$S"/res/* 2>/dev/null
total=$(ls "$S"/cases 2>/dev/null | wc -l)
bad=$(cat "$S"/res/* 2>/dev/null | grep -c -E '^(MISS|FALSE-ALARM|SELFTEST-ERROR)')
done_n=$(ls "$S"/res 2>/dev/null | wc -l)
rm -rf "$S"; git -C /repo worktree prune
echo "selftest: $total cases, $done_n finished, $bad failed"
[ "$bad" = 0 ] && [ "$done_n" = "$total" ]

#!/bin/bash
# Self-test of the machinery (run after every engine change):
#  (a) must-fail: the reverse patch of every "fix:" commit in /repo, and every patch in selftest/mustfail/<id>/*.diff,
#      applied to a scratch worktree, must make the named property's quick check report a VIOLATION;
#  (b) must-pass: every patch in selftest/harmless/<id>/*.diff must leave the check silent.
# Usage: selftest/run.sh [filter-regexp]
set -u
V="$(cd "$(dirname "$0")/.." && pwd)"
export GOFLAGS=-mod=mod GOPROXY=off GOSUMDB=off GOTOOLCHAIN=local
FILTER="${1:-.}"
S=/root/scratch-verif
rm -rf "$S"; mkdir -p "$S"
git -C /repo worktree prune
fail=0; n=0
run_case() { # name prop expect(viol|silent) patchfile reverse(0|1)
  local name="$1" prop="$2" expect="$3" patch="$4" rev="$5"
  [[ "$name" =~ $FILTER ]] || return
  n=$((n+1))
  local wt="$S/wt"
  rm -rf "$wt"; git -C /repo worktree prune
  git -C /repo worktree add -q --detach "$wt" HEAD || { echo "cannot add worktree"; exit 2; }
  if [ "$rev" = 1 ]; then
    git -C "$wt" apply -R "$patch" || { echo "SELFTEST-ERROR $name: reverse patch does not apply"; fail=$((fail+1)); git -C /repo worktree remove --force "$wt"; return; }
  else
    git -C "$wt" apply "$patch" || { echo "SELFTEST-ERROR $name: patch does not apply"; fail=$((fail+1)); git -C /repo worktree remove --force "$wt"; return; }
  fi
  local out; out=$("$V/bin/govc" check --repo "$wt" --verif "$V" --out "$S/out" --prop "$prop" 2>&1); local rc=$?
  local nv; nv=$(echo "$out" | grep -c '^VIOLATION')
  local replayed; replayed=$(echo "$out" | grep '^VIOLATION' | grep -vc 'no-failing-input-found')
  if [ "$expect" = viol ]; then
    if [ "$rc" = 1 ] && [ "$nv" -gt 0 ]; then echo "ok   $name: $prop reports $nv violation(s), $replayed replayed on the real code"
    else echo "MISS $name: $prop stayed silent (rc=$rc)"; fail=$((fail+1)); fi
  else
    if [ "$rc" = 0 ]; then echo "ok   $name: $prop silent"
    else echo "FALSE-ALARM $name: $prop rc=$rc"; echo "$out" | grep '^VIOLATION' | head -3; fail=$((fail+1)); fi
  fi
  git -C /repo worktree remove --force "$wt"
}
# (a1) reverse of every fix commit listed in selftest/fixes.txt:  <commit> <property>
while read -r commit prop rest; do
  [ -z "${commit:-}" ] && continue
  case "$commit" in \#*) continue;; esac
  git -C /repo show "$commit" --format= -- . > "$S/fix.diff"
  run_case "revert-$commit" "$prop" viol "$S/fix.diff" 1
done < "$V/selftest/fixes.txt"
# (a2) hand-written regressions
for f in "$V"/selftest/mustfail/*/*.diff; do [ -e "$f" ] || continue
  prop=$(basename "$(dirname "$f")"); run_case "mustfail-$prop-$(basename "$f" .diff)" "$prop" viol "$f" 0; done
# (b) harmless refactors
for f in "$V"/selftest/harmless/*/*.diff; do [ -e "$f" ] || continue
  prop=$(basename "$(dirname "$f")"); run_case "harmless-$prop-$(basename "$f" .diff)" "$prop" silent "$f" 0; done
rm -rf "$S"; git -C /repo worktree prune
echo "selftest: $n cases, $fail failed"
[ "$fail" = 0 ]
